(* "never negative" (sign bit clear, or NaN) is closed under binary64 +, *, /. *)
From Coq Require Import ZArith Reals Floats Lia Lra Psatz Bool.
From Flocq Require Import Core.Core IEEE754.BinarySingleNaN IEEE754.PrimFloat.
From MT Require Import FloatInst.

Local Open Scope R_scope.

Local Instance Hprec' : FLX.Prec_gt_0 prec := Hprec.
Local Instance Hmax' : Prec_lt_emax prec emax := Hmax.

Definition notneg (x : PrimFloat.float) : Prop :=
  match Prim2SF x with
  | S754_zero s => s = false          (* +0 only: -0 is excluded on purpose (1 / -0 = -inf) *)
  | S754_infinity s => s = false      (* +inf allowed *)
  | S754_nan => True                  (* NaN allowed: the statement is "never negative", not "finite" *)
  | S754_finite s _ _ => s = false
  end.

(* ---------- bridge to Flocq's binary_float ---------- *)

Lemma notneg_Bsign : forall x, notneg x <-> Bsign (Prim2B x) = false.
Proof.
intros x. unfold notneg. rewrite <- B2SF_Prim2B.
destruct (Prim2B x); simpl; tauto.
Qed.

Lemma Bsign_overflow : forall (z : binary_float prec emax) m s,
  B2SF z = binary_overflow prec emax m s -> Bsign z = s.
Proof.
intros z m s. unfold binary_overflow.
destruct z; destruct (overflow_to_inf m s); simpl; intros H; try discriminate H;
  now inversion H.
Qed.

Lemma Bsign_false_nonneg : forall b : binary_float prec emax, Bsign b = false -> 0 <= B2R b.
Proof.
intros [s|s| |s m e H]; simpl; intros Hs; try apply Rle_refl.
subst s. left. now apply F2R_gt_0.
Qed.

Lemma Prim2B_zero : Prim2B 0%float = B754_zero false.
Proof. change 0%float with zero. rewrite zero_equiv. apply Prim2B_B2Prim. Qed.

Lemma Prim2B_neg_zero : Prim2B (-0)%float = B754_zero true.
Proof. change (-0)%float with neg_zero. rewrite neg_zero_equiv. apply Prim2B_B2Prim. Qed.

(* ---------- 1. constants and the unit interval ---------- *)

Theorem notneg_zero : notneg 0%float.
Proof. reflexivity. Qed.

Theorem notneg_one : notneg 1%float.
Proof. reflexivity. Qed.

Theorem notneg_infinity : notneg infinity.
Proof. reflexivity. Qed.

Theorem notneg_nan : notneg nan.
Proof. exact I. Qed.

(* -0 is NOT notneg, and it does satisfy 0 <= -0 *)
Theorem neg_zero_not_notneg : ~ notneg (-0)%float.
Proof. intros H. discriminate H. Qed.

Theorem leb_zero_neg_zero : PrimFloat.leb 0 (-0) = true.
Proof. reflexivity. Qed.

Theorem leb0_notneg : forall d, PrimFloat.leb 0 d = true -> notneg d \/ d = (-0)%float.
Proof.
intros d H. rewrite leb_equiv, Prim2B_zero in H.
destruct (Prim2B d) as [s|s| |s m e Hb] eqn:E.
- destruct s.
  + right. apply Prim2B_inj. now rewrite Prim2B_neg_zero.
  + left. apply notneg_Bsign. now rewrite E.
- destruct s; [discriminate H|]. left. apply notneg_Bsign. now rewrite E.
- discriminate H.
- destruct s; [discriminate H|]. left. apply notneg_Bsign. now rewrite E.
Qed.

Theorem in_unit_notneg : forall d, PrimFloat.leb 0 d = true -> PrimFloat.ltb d 1 = true ->
  notneg d \/ d = (-0)%float.
Proof. intros d H _. now apply leb0_notneg. Qed.

(* ---------- 3. what "never negative" means as a comparison ---------- *)

Theorem notneg_not_negative : forall x, notneg x -> PrimFloat.ltb x 0 = false.
Proof.
intros x H. apply notneg_Bsign in H.
rewrite ltb_equiv, Prim2B_zero.
destruct (Prim2B x) as [s|s| |s m e Hb]; simpl in H; try subst s; reflexivity.
Qed.

Theorem in_unit_not_lt0 : forall d, PrimFloat.leb 0 d = true -> PrimFloat.ltb d 0 = false.
Proof.
intros d H. destruct (leb0_notneg d H) as [H1|H1].
- now apply notneg_not_negative.
- subst d. reflexivity.
Qed.

(* ---------- 2. closure under +, *, / ---------- *)

Theorem notneg_add : forall x y, notneg x -> notneg y -> notneg (x + y).
Proof.
intros x y Hx Hy.
apply notneg_Bsign in Hx. apply notneg_Bsign in Hy. apply notneg_Bsign.
rewrite add_equiv.
destruct (is_finite (Prim2B x)) eqn:Fx; [destruct (is_finite (Prim2B y)) eqn:Fy|].
- generalize (Bplus_correct prec emax Hprec Hmax mode_NE _ _ Fx Fy).
  generalize (Bsign_false_nonneg _ Hx) (Bsign_false_nonneg _ Hy). intros Px Py.
  destruct Rlt_bool.
  + intros (_ & _ & Hs). rewrite Hs, Hx, Hy.
    destruct (Rcompare_spec (B2R (Prim2B x) + B2R (Prim2B y)) 0); try reflexivity.
    exfalso. lra.
  + intros (Ho & _). rewrite (Bsign_overflow _ _ _ Ho). exact Hx.
- destruct (Prim2B x) as [sx|sx| |sx mx ex Bx]; destruct (Prim2B y) as [sy|sy| |sy my ey By];
    simpl in *; try discriminate Fy; try subst sx; try subst sy; reflexivity.
- destruct (Prim2B x) as [sx|sx| |sx mx ex Bx]; destruct (Prim2B y) as [sy|sy| |sy my ey By];
    simpl in *; try discriminate Fx; try subst sx; try subst sy; reflexivity.
Qed.

Theorem notneg_mul : forall x y, notneg x -> notneg y -> notneg (x * y).
Proof.
intros x y Hx Hy.
apply notneg_Bsign in Hx. apply notneg_Bsign in Hy. apply notneg_Bsign.
rewrite mul_equiv.
generalize (Bmult_correct prec emax Hprec Hmax mode_NE (Prim2B x) (Prim2B y)).
rewrite Hx, Hy. simpl xorb.
destruct Rlt_bool.
- intros (_ & _ & Hs).
  destruct (is_nan (Bmult mode_NE (Prim2B x) (Prim2B y))) eqn:N.
  + destruct (Bmult mode_NE (Prim2B x) (Prim2B y)); try discriminate N. reflexivity.
  + now apply Hs.
- intros Ho. exact (Bsign_overflow _ _ _ Ho).
Qed.

Theorem notneg_div : forall x y, notneg x -> notneg y -> notneg (x / y).
Proof.
intros x y Hx Hy.
apply notneg_Bsign in Hx. apply notneg_Bsign in Hy. apply notneg_Bsign.
rewrite div_equiv.
destruct (Req_dec (B2R (Prim2B y)) 0) as [Z|Z].
- (* y is +0, +inf or NaN: the result is computed by the special-value table *)
  destruct (Prim2B y) as [sy|sy| |sy my ey By].
  + destruct (Prim2B x) as [sx|sx| |sx mx ex Bx]; simpl in *;
      try subst sx; try subst sy; reflexivity.
  + destruct (Prim2B x) as [sx|sx| |sx mx ex Bx]; simpl in *;
      try subst sx; try subst sy; reflexivity.
  + destruct (Prim2B x) as [sx|sx| |sx mx ex Bx]; reflexivity.
  + exfalso. simpl in Z. simpl in Hy. subst sy.
    generalize (F2R_gt_0 radix2 (Float radix2 (Z.pos my) ey)). simpl.
    intros G. specialize (G eq_refl). simpl in Z. lra.
- generalize (Bdiv_correct prec emax Hprec Hmax mode_NE (Prim2B x) (Prim2B y) Z).
  rewrite Hx, Hy. simpl xorb.
  destruct Rlt_bool.
  + intros (_ & _ & Hs).
    destruct (is_nan (Bdiv mode_NE (Prim2B x) (Prim2B y))) eqn:N.
    * destruct (Bdiv mode_NE (Prim2B x) (Prim2B y)); try discriminate N. reflexivity.
    * now apply Hs.
  + intros Ho. exact (Bsign_overflow _ _ _ Ho).
Qed.

(* x / +0 is +inf or NaN, in particular never negative (instance of notneg_div) *)
Corollary notneg_div_zero : forall x, notneg x -> notneg (x / 0).
Proof. intros x H. apply notneg_div; [exact H | exact notneg_zero]. Qed.

(* ---------- 4. counts ---------- *)

Theorem notneg_of_uint63 : forall i, notneg (PrimFloat.of_uint63 i).
Proof.
intros i. apply notneg_Bsign.
rewrite of_int63_equiv.
generalize (binary_normalize_correct prec emax Hprec Hmax mode_NE (Uint63.to_Z i) 0 false).
cbv zeta.
assert (Hi : (0 <= Uint63.to_Z i)%Z) by apply Uint63.to_Z_bounded.
assert (Hr : 0 <= F2R (Float radix2 (Uint63.to_Z i) 0)) by now apply F2R_ge_0.
destruct Rlt_bool.
- intros (_ & _ & Hs). rewrite Hs.
  destruct (Rcompare_spec (F2R (Float radix2 (Uint63.to_Z i) 0)) 0); try reflexivity.
  exfalso. lra.
- intros Ho. rewrite (Bsign_overflow _ _ _ Ho).
  apply Rlt_bool_false. exact Hr.
Qed.

Theorem notneg_float_of_nat : forall n : nat, notneg (float_of_nat n).
Proof. intros n. apply notneg_of_uint63. Qed.

Check notneg_zero.
Check notneg_one.
Check in_unit_notneg.
Check in_unit_not_lt0.
Check notneg_add.
Check notneg_mul.
Check notneg_div.
Check notneg_not_negative.
Check notneg_of_uint63.
Check notneg_float_of_nat.
Print Assumptions notneg_zero.
Print Assumptions notneg_one.
Print Assumptions in_unit_notneg.
Print Assumptions in_unit_not_lt0.
Print Assumptions notneg_add.
Print Assumptions notneg_mul.
Print Assumptions notneg_div.
Print Assumptions notneg_not_negative.
Print Assumptions notneg_of_uint63.
Print Assumptions notneg_float_of_nat.
