(* Layout.v -- the storage layout contract (tensor.hpp:58-67): element (i,j,a) of an R x C x T
   tensor lives at a*R*C + j*R + i. *)
From Coq Require Import Arith List.
Import ListNotations.

Definition idx (R C T i j a : nat) : nat := a * R * C + j * R + i.
(* inverse *)
Definition unidx (R C T p : nat) : nat * nat * nat := (p mod R, (p / R) mod C, p / (R * C)).
(* transposed view *)
Definition idx_transposed (R C T i j a : nat) : nat := idx R C T j i a.
(* Tensor::resize(nrows, ncols, ntubes): the tensor takes the NEW dimensions and is zero-filled, whatever it held before *)
Record tensor_shape := { t_rows : nat; t_cols : nat; t_tubes : nat; t_size : nat }.
Definition t_make (R C T : nat) : tensor_shape := {| t_rows := R; t_cols := C; t_tubes := T; t_size := R * C * T |}.
Definition t_resize (old : tensor_shape) (R C T : nat) : tensor_shape := t_make R C T.
Definition t_idx (t : tensor_shape) (i j a : nat) : nat := idx (t_rows t) (t_cols t) (t_tubes t) i j a.

(* affinity vector exchanged with callers *)
Definition idx_gen (K L k q a : nat) : nat := idx K K L k q a.
Definition idx_ass (K L k a : nat) : nat := idx K 1 L k 0 a.
