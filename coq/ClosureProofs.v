(* ClosureProofs.v -- a generic closure theorem for the sweep model.

   For ANY carrier [num], ANY arithmetic [A : Arith num] and ANY predicate [P : num -> Prop] that
   holds of [zero A] and is closed under [add A], [mul A] and [div A] (nothing at all is assumed
   about [sub], [ln], [ltb], [absn], [of_count], [eps]...), one sweep -- and hence any number of
   sweeps -- preserves "every entry of u, v and w satisfies P".

   The reason is purely syntactic: every value the update functions store is built from stored
   entries (or the default [zero] read outside a matrix) with [add]/[mul]/[div] only; the
   truncation [if ltb (absn x) eps then zero else x] and the guards [if ltb eps z then .. else old]
   merely SELECT between two values that both satisfy P. *)
From Coq Require Import List Arith Bool.
Import ListNotations.
From MT Require Import Arith SweepModel InitModel CtrlProofs.

Section Closure.
  Variable num : Type.
  Variable A : Arith num.
  Variable P : num -> Prop.
  Hypothesis P_zero : P (zero A).
  Hypothesis P_add : forall x y, P x -> P y -> P (add A x y).
  Hypothesis P_mul : forall x y, P x -> P y -> P (mul A x y).
  Hypothesis P_div : forall x y, P x -> P y -> P (div A x y).

  (* "every entry satisfies P", stated through the total accessors *)
  Definition Pm (M : matrix num) : Prop := forall i k, P (mget num A M i k).
  Definition Pt (w : list (matrix num)) : Prop := forall k q a, P (tget num A w k q a).
  Definition Pd (w : list (list num)) : Prop := forall k a, P (dget num A w k a).

  (* ---------- generic list facts ---------- *)
  Lemma nth_Forall_Q : forall (T : Type) (Q : T -> Prop) (l : list T) (d : T) (i : nat),
      Forall Q l -> Q d -> Q (nth i l d).
  Proof.
    intros T Q l d i Hl Hd. revert i. induction Hl as [|x l Hx Hl IH]; intros [|i]; simpl; auto.
  Qed.

  (* a fold_left whose step preserves P, started from something satisfying P, satisfies P *)
  Lemma fold_left_P : forall (T : Type) (f : num -> T -> num) (l : list T),
      (forall s a, P s -> P (f s a)) -> forall s, P s -> P (fold_left f l s).
  Proof.
    intros T f l Hf. induction l as [|a l IH]; intros s Hs; simpl; auto.
  Qed.

  (* the sum  x = init; for a in l: x += f a  *)
  Lemma acc_P : forall (T : Type) (l : list T) (f : T -> num) (init : num),
      (forall a, P (f a)) -> P init -> P (acc num A l f init).
  Proof.
    intros T l f init Hf Hi. unfold acc. apply fold_left_P; auto.
  Qed.

  Lemma trunc_P : forall x, P x -> P (trunc num A x).
  Proof. intros x Hx. unfold trunc. destruct (ltb A (absn A x) (eps A)); auto. Qed.

  (* rows: a list all of whose (defaulted) reads satisfy P *)
  Definition Prow (r : list num) : Prop := forall k, P (nth k r (zero A)).

  Lemma Prow_nil : Prow [].
  Proof. intros [|k]; simpl; exact P_zero. Qed.

  Lemma Prow_map : forall (T : Type) (g : T -> num) (l : list T), (forall a, P (g a)) -> Prow (map g l).
  Proof.
    intros T g l Hg k. apply nth_Forall_Q; [|exact P_zero].
    apply Forall_forall. intros x Hx. apply in_map_iff in Hx. destruct Hx as [a [<- _]]. apply Hg.
  Qed.

  Lemma Pm_of_rows : forall M : matrix num, Forall Prow M -> Pm M.
  Proof.
    intros M HM i k. unfold mget.
    exact (nth_Forall_Q _ Prow M [] i HM Prow_nil k).
  Qed.

  Lemma Forall_map_intro : forall (S T : Type) (Q : T -> Prop) (g : S -> T) (l : list S),
      (forall a, Q (g a)) -> Forall Q (map g l).
  Proof.
    intros S T Q g l Hg. apply Forall_forall. intros x Hx.
    apply in_map_iff in Hx. destruct Hx as [a [<- _]]. apply Hg.
  Qed.

  Lemma mtab_P : forall n m (f : nat -> nat -> num), (forall i k, P (f i k)) -> Pm (mtab num n m f).
  Proof.
    intros n m f Hf. apply Pm_of_rows. unfold mtab.
    apply Forall_map_intro. intros i. apply Prow_map. intros k. apply Hf.
  Qed.

  Lemma Pm_nil : Pm [].
  Proof. intros i k. unfold mget. destruct i; simpl; apply Prow_nil. Qed.

  Lemma Pt_of_layers : forall w : list (matrix num), Forall Pm w -> Pt w.
  Proof.
    intros w Hw k q a. unfold tget.
    exact (nth_Forall_Q _ Pm w [] a Hw Pm_nil k q).
  Qed.

  Lemma Pd_of_layers : forall w : list (list num), Forall Prow w -> Pd w.
  Proof.
    intros w Hw k a. unfold dget.
    exact (nth_Forall_Q _ Prow w [] a Hw Prow_nil k).
  Qed.

  (* ---------- the automation: P of an expression built from add/mul/div/zero, sums, guarded
     sums and if-selections, with leaves solved by the context ---------- *)
  Ltac closeP :=
    repeat first
      [ assumption
      | exact P_zero
      | match goal with
        | H : Pm _ |- P (mget _ _ _ _ _) => apply H
        | H : forall _ _ _, P _ |- P _ => apply H
        | H : forall _ _, P _ |- P _ => apply H
        | H : forall _, P _ |- P _ => apply H
        | |- P (acc _ _ _ _ _) => apply acc_P; [intros ?|]
        | |- P (fold_left _ _ _) => apply fold_left_P; [intros ? ? ?|]
        | |- P (trunc _ _ _) => apply trunc_P
        | |- P (add _ _ _) => apply P_add
        | |- P (mul _ _ _) => apply P_mul
        | |- P (div _ _ _) => apply P_div
        | |- P (if ?b then _ else _) => destruct b
        | |- P (let _ := _ in _) => cbv zeta
        end ].

  (* ---------- the vertex updates ---------- *)
  Section Vertices.
    Variables (N K L : nat) (adj : nat -> nat -> list nat) (numl denl : list nat).
    Variables (fixed old : matrix num).
    Hypothesis Hfixed : Pm fixed.
    Hypothesis Hold : Pm old.

    Section Gen.
      Variable w : nat -> nat -> nat -> num.
      Hypothesis Hw : forall k q a, P (w k q a).

      Lemma Zk_gen_P : forall k, P (Zk_gen num A K L denl fixed w k).
      Proof. intros k. unfold Zk_gen, ks, layers. closeP. Qed.

      Lemma Zij_gen_P : forall i j a, P (Zij_gen num A K fixed old w i j a).
      Proof. intros i j a. unfold Zij_gen, ks. closeP. Qed.

      Lemma val_gen_P : forall i k, P (val_gen num A K L adj fixed old w i k).
      Proof.
        intros i k. unfold val_gen, ks, layers.
        pose proof Zij_gen_P as HZ. closeP.
      Qed.

      Theorem upd_vertices_gen_P : Pm (upd_vertices_gen num A N K L adj numl denl fixed old w).
      Proof.
        unfold upd_vertices_gen. apply mtab_P. intros i k.
        pose proof Zk_gen_P as HZ. pose proof val_gen_P as HV. closeP.
      Qed.
    End Gen.

    Section Ass.
      Variable wd : nat -> nat -> num.
      Hypothesis Hwd : forall k a, P (wd k a).

      Lemma Zk_ass_P : forall k, P (Zk_ass num A L denl fixed wd k).
      Proof. intros k. unfold Zk_ass, layers. closeP. Qed.

      Lemma Zij_ass_P : forall i j a, P (Zij_ass num A K fixed old wd i j a).
      Proof. intros i j a. unfold Zij_ass, ks. closeP. Qed.

      Lemma val_ass_P : forall i k, P (val_ass num A K L adj fixed old wd i k).
      Proof.
        intros i k. unfold val_ass, ks, layers.
        pose proof Zij_ass_P as HZ. closeP.
      Qed.

      Theorem upd_vertices_ass_P : Pm (upd_vertices_ass num A N K L adj numl denl fixed old wd).
      Proof.
        unfold upd_vertices_ass. apply mtab_P. intros i k.
        pose proof Zk_ass_P as HZ. pose proof val_ass_P as HV. closeP.
      Qed.
    End Ass.
  End Vertices.

  (* ---------- the affinity updates ---------- *)
  Section Affinity.
    Variables (N K L : nat) (out : nat -> nat -> list nat) (ul vl : list nat).
    Variables (u v : matrix num).
    Hypothesis Hu : Pm u.
    Hypothesis Hv : Pm v.

    Section Gen.
      Variable w : nat -> nat -> nat -> num.
      Hypothesis Hw : forall k q a, P (w k q a).

      Lemma Zij_w_P : forall i j a, P (Zij_w num A K u v w i j a).
      Proof. intros i j a. unfold Zij_w, ks. closeP. Qed.

      Lemma new_w_gen_P : forall k q a, P (new_w_gen num A N K out ul vl u v w k q a).
      Proof.
        intros k q a. unfold new_w_gen, vertices.
        pose proof Zij_w_P as HZ. closeP.
      Qed.

      Theorem upd_affinity_gen_P : Pt (upd_affinity_gen num A N K L out ul vl u v w).
      Proof.
        unfold upd_affinity_gen. apply Pt_of_layers. apply Forall_map_intro. intros a.
        apply mtab_P. intros k q. apply new_w_gen_P.
      Qed.
    End Gen.

    Section Ass.
      Variable wd : nat -> nat -> num.
      Hypothesis Hwd : forall k a, P (wd k a).

      Lemma Zij_wd_P : forall i j a, P (Zij_wd num A K u v wd i j a).
      Proof. intros i j a. unfold Zij_wd, ks. closeP. Qed.

      Lemma new_w_ass_P : forall k a, P (new_w_ass num A N K out ul vl u v wd k a).
      Proof.
        intros k a. unfold new_w_ass, vertices.
        pose proof Zij_wd_P as HZ. closeP.
      Qed.

      Theorem upd_affinity_ass_P : Pd (upd_affinity_ass num A N K L out ul vl u v wd).
      Proof.
        unfold upd_affinity_ass. apply Pd_of_layers. apply Forall_map_intro. intros a.
        apply Prow_map. intros k. apply new_w_ass_P.
      Qed.
    End Ass.
  End Affinity.

  (* ---------- one sweep ---------- *)
  Definition Pst_gen (s : matrix num * matrix num * list (matrix num)) : Prop :=
    Pm (fst (fst s)) /\ Pm (snd (fst s)) /\ Pt (snd s).
  Definition Pst_ass (s : matrix num * matrix num * list (list num)) : Prop :=
    Pm (fst (fst s)) /\ Pm (snd (fst s)) /\ Pd (snd s).

  Theorem sweep_gen_P : forall N K L directed (G : graph) u v w,
      Pm u -> Pm v -> Pt w ->
      Pst_gen (sweep_gen num A N K L directed G (u, v, w)).
  Proof.
    intros N K L directed G u v w Hu Hv Hw. unfold Pst_gen, sweep_gen.
    assert (Hw' : forall k q a, P (tget num A w k q a)) by exact Hw.
    destruct directed; cbn [fst snd].
    - assert (Hu1 : Pm (upd_vertices_gen num A N K L (gout G) (gul G) (gvl G) v u (tget num A w)))
        by (apply upd_vertices_gen_P; assumption).
      assert (Hv1 : Pm (upd_vertices_gen num A N K L (gin G) (gvl G) (gul G)
                          (upd_vertices_gen num A N K L (gout G) (gul G) (gvl G) v u (tget num A w))
                          v (fun k l a => tget num A w l k a)))
        by (apply upd_vertices_gen_P; try assumption; intros; apply Hw').
      repeat split; try assumption.
      apply upd_affinity_gen_P; assumption.
    - assert (Hu1 : Pm (upd_vertices_gen num A N K L (gout G) (gul G) (gvl G) u u (tget num A w)))
        by (apply upd_vertices_gen_P; assumption).
      repeat split; try assumption.
      apply upd_affinity_gen_P; assumption.
  Qed.

  Theorem sweep_ass_P : forall N K L directed (G : graph) u v w,
      Pm u -> Pm v -> Pd w ->
      Pst_ass (sweep_ass num A N K L directed G (u, v, w)).
  Proof.
    intros N K L directed G u v w Hu Hv Hw. unfold Pst_ass, sweep_ass.
    assert (Hw' : forall k a, P (dget num A w k a)) by exact Hw.
    destruct directed; cbn [fst snd].
    - assert (Hu1 : Pm (upd_vertices_ass num A N K L (gout G) (gul G) (gvl G) v u (dget num A w)))
        by (apply upd_vertices_ass_P; assumption).
      assert (Hv1 : Pm (upd_vertices_ass num A N K L (gin G) (gvl G) (gul G)
                          (upd_vertices_ass num A N K L (gout G) (gul G) (gvl G) v u (dget num A w))
                          v (dget num A w)))
        by (apply upd_vertices_ass_P; assumption).
      repeat split; try assumption.
      apply upd_affinity_ass_P; assumption.
    - assert (Hu1 : Pm (upd_vertices_ass num A N K L (gout G) (gul G) (gvl G) u u (dget num A w)))
        by (apply upd_vertices_ass_P; assumption).
      repeat split; try assumption.
      apply upd_affinity_ass_P; assumption.
  Qed.

  (* the same, on an arbitrary state triple *)
  Corollary sweep_gen_Pst : forall N K L directed (G : graph) s,
      Pst_gen s -> Pst_gen (sweep_gen num A N K L directed G s).
  Proof. intros N K L directed G [[u v] w] (Hu & Hv & Hw). apply sweep_gen_P; assumption. Qed.

  Corollary sweep_ass_Pst : forall N K L directed (G : graph) s,
      Pst_ass s -> Pst_ass (sweep_ass num A N K L directed G s).
  Proof. intros N K L directed G [[u v] w] (Hu & Hv & Hw). apply sweep_ass_P; assumption. Qed.

  (* ---------- any number of sweeps ---------- *)
  Theorem iter_sweep_gen_P : forall N K L directed (G : graph) n u v w,
      Pm u -> Pm v -> Pt w ->
      Pst_gen (iter_sweep num (list (matrix num)) (sweep_gen num A N K L directed G) n (u, v, w)).
  Proof.
    intros N K L directed G n u v w Hu Hv Hw.
    induction n as [|n IH]; cbn [iter_sweep].
    - repeat split; assumption.
    - apply sweep_gen_Pst. exact IH.
  Qed.

  Theorem iter_sweep_ass_P : forall N K L directed (G : graph) n u v w,
      Pm u -> Pm v -> Pd w ->
      Pst_ass (iter_sweep num (list (list num)) (sweep_ass num A N K L directed G) n (u, v, w)).
  Proof.
    intros N K L directed G n u v w Hu Hv Hw.
    induction n as [|n IH]; cbn [iter_sweep].
    - repeat split; assumption.
    - apply sweep_ass_Pst. exact IH.
  Qed.

  (* the generic form: ANY step function preserving a state predicate *)
  Theorem iter_sweep_preserves : forall (W : Type) (sweepf : matrix num * matrix num * W -> matrix num * matrix num * W)
                                (Q : matrix num * matrix num * W -> Prop),
      (forall s, Q s -> Q (sweepf s)) ->
      forall n s, Q s -> Q (iter_sweep num W sweepf n s).
  Proof.
    intros W sweepf Q Hstep n s Hs. induction n as [|n IH]; cbn [iter_sweep]; auto.
  Qed.
  (* iter_sweep_P, spelled out through the accessors (no auxiliary definitions in the statement) *)
  Corollary iter_sweep_gen_entries : forall N K L directed (G : graph) n u v w,
      (forall i k, P (mget num A u i k)) -> (forall i k, P (mget num A v i k)) ->
      (forall k q a, P (tget num A w k q a)) ->
      let '(u', v', w') := iter_sweep num (list (matrix num)) (sweep_gen num A N K L directed G) n (u, v, w) in
      (forall i k, P (mget num A u' i k)) /\ (forall i k, P (mget num A v' i k)) /\
      (forall k q a, P (tget num A w' k q a)).
  Proof.
    intros N K L directed G n u v w Hu Hv Hw.
    pose proof (iter_sweep_gen_P N K L directed G n u v w Hu Hv Hw) as H.
    destruct (iter_sweep num (list (matrix num)) (sweep_gen num A N K L directed G) n (u, v, w)) as [[u' v'] w'].
    exact H.
  Qed.

  Corollary iter_sweep_ass_entries : forall N K L directed (G : graph) n u v w,
      (forall i k, P (mget num A u i k)) -> (forall i k, P (mget num A v i k)) ->
      (forall k a, P (dget num A w k a)) ->
      let '(u', v', w') := iter_sweep num (list (list num)) (sweep_ass num A N K L directed G) n (u, v, w) in
      (forall i k, P (mget num A u' i k)) /\ (forall i k, P (mget num A v' i k)) /\
      (forall k a, P (dget num A w' k a)).
  Proof.
    intros N K L directed G n u v w Hu Hv Hw.
    pose proof (iter_sweep_ass_P N K L directed G n u v w Hu Hv Hw) as H.
    destruct (iter_sweep num (list (list num)) (sweep_ass num A N K L directed G) n (u, v, w)) as [[u' v'] w'].
    exact H.
  Qed.
End Closure.

Check Pm. Check Pt. Check Pd. Check Pst_gen. Check Pst_ass.
Check fold_left_P.
Check acc_P.
Check mtab_P.
Check upd_vertices_gen_P.
Check upd_vertices_ass_P.
Check upd_affinity_gen_P.
Check upd_affinity_ass_P.
Check sweep_gen_P.
Check sweep_ass_P.
Check sweep_gen_Pst.
Check sweep_ass_Pst.
Check iter_sweep_gen_P.
Check iter_sweep_ass_P.
Check iter_sweep_preserves.
Check iter_sweep_gen_entries.
Check iter_sweep_ass_entries.

Print Assumptions upd_vertices_gen_P.
Print Assumptions upd_vertices_ass_P.
Print Assumptions upd_affinity_gen_P.
Print Assumptions upd_affinity_ass_P.
Print Assumptions sweep_gen_P.
Print Assumptions sweep_ass_P.
Print Assumptions iter_sweep_gen_P.
Print Assumptions iter_sweep_ass_P.
Print Assumptions iter_sweep_preserves.
Print Assumptions iter_sweep_gen_entries.
Print Assumptions iter_sweep_ass_entries.
