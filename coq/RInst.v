From Coq Require Import Reals List Lra Lia Arith Bool.
Import ListNotations.
From MT Require Import Arith J MM SweepModel.
Local Open Scope R_scope.

Definition Rltb (x y : R) : bool := if Rlt_dec x y then true else false.
Lemma Rltb_true x y : Rltb x y = true <-> x < y.
Proof. unfold Rltb; destruct (Rlt_dec x y); split; intros; try easy. Qed.
Lemma Rltb_false x y : Rltb x y = false <-> y <= x.
Proof. unfold Rltb; destruct (Rlt_dec x y); split; intros; try easy; lra. Qed.

Definition epsR : R := 1 / 1000000.
(* std::numeric_limits<double>::lowest() = -(2 - 2^-52) * 2^1023 *)
Definition lowestR : R := - ((2 - / 2 ^ 52) * 2 ^ 1023).
Definition ArithR : Arith R :=
  {| zero := 0; add := Rplus; sub := Rminus; mul := Rmult; div := Rdiv; absn := Rabs; ltb := Rltb;
     eps := epsR; eps_lik := 1 / 10000; noise := 1 / 10; lowest := lowestR;
     ln := Rpower.ln; of_count := INR |}.

(* accumulators are sums *)
Lemma acc_sum {T} (l : list T) (f : T -> R) (init : R) : acc R ArithR l f init = init + sumR f l.
Proof.
  unfold acc. revert init. induction l as [|a l IH]; intros init; simpl; [lra|].
  rewrite IH. simpl. lra.
Qed.

Lemma fold_guard_sum {T} (l : list T) (c : T -> bool) (f : T -> R) (init : R) :
  fold_left (fun s j => if c j then s + f j else s) l init = init + sumR (fun j => if c j then f j else 0) l.
Proof.
  revert init. induction l as [|a l IH]; intros init; simpl; [lra|].
  rewrite IH. destruct (c a); lra.
Qed.

Lemma nth_map_seq {B} (f : nat -> B) (d : B) n i : (i < n)%nat -> nth i (map f (seq 0 n)) d = f i.
Proof.
  intros Hi. rewrite (nth_indep _ d (f 0%nat)) by (rewrite map_length, seq_length; exact Hi).
  rewrite (map_nth f (seq 0 n) 0%nat i). rewrite seq_nth by exact Hi. reflexivity.
Qed.

Lemma mget_mtab n m f i k : (i < n)%nat -> (k < m)%nat -> mget R ArithR (mtab R n m f) i k = f i k.
Proof.
  intros Hi Hk. unfold mget, mtab.
  rewrite (nth_map_seq (fun i => map (fun k => f i k) (seq 0 m)) [] n i Hi).
  apply (nth_map_seq (fun k => f i k)). exact Hk.
Qed.

(* the u-update, entry by entry, as a closed formula over R *)
Section UFormula.
  Variables (N K L : nat) (adj : nat -> nat -> list nat) (numl denl : list nat) (fixed old : matrix R)
            (w : nat -> nat -> nat -> R).
  Notation g := (mget R ArithR).
  Definition ZkR k := sumR (fun l => sumR (fun a => w k l a) (seq 0 L) * sumR (fun i => g fixed i l) denl) (seq 0 K).
  Definition MijR i j a := sumR (fun m => sumR (fun l => g old i m * g fixed j l * w m l a) (seq 0 K)) (seq 0 K).
  Definition valR i k := sumR (fun a => sumR (fun j => if Rltb epsR (MijR i j a)
                              then sumR (fun q => g fixed j q * w k q a) (seq 0 K) / MijR i j a else 0) (adj a i)) (seq 0 L).

  Lemma Zk_gen_R k : Zk_gen R ArithR K L denl fixed w k = ZkR k.
  Proof.
    unfold Zk_gen, ZkR. rewrite acc_sum. rewrite Rplus_0_l. apply sumR_ext. intros l _.
    rewrite !acc_sum. simpl. unfold layers. lra.
  Qed.

  Lemma Zij_gen_R i j a : Zij_gen R ArithR K fixed old w i j a = MijR i j a.
  Proof.
    unfold Zij_gen, MijR, ks.
    assert (H : forall l init, fold_left (fun s m => acc R ArithR (seq 0 K) (fun l0 => g old i m * g fixed j l0 * w m l0 a) s) l init
                 = init + sumR (fun m => sumR (fun l0 => g old i m * g fixed j l0 * w m l0 a) (seq 0 K)) l).
    { induction l as [|m l IH]; intros init; simpl; [lra|]. rewrite IH, acc_sum. lra. }
    rewrite H. simpl. lra.
  Qed.

  Lemma val_gen_R i k : val_gen R ArithR K L adj fixed old w i k = valR i k.
  Proof.
    unfold val_gen, valR, layers.
    assert (H : forall la init,
      fold_left (fun s a => fold_left (fun s0 j => let Zij := Zij_gen R ArithR K fixed old w i j a in
            if ltb ArithR (eps ArithR) Zij then add ArithR s0 (div ArithR (acc R ArithR (ks K) (fun q => mul ArithR (g fixed j q) (w k q a)) (zero ArithR)) Zij) else s0) (adj a i) s) la init
      = init + sumR (fun a => sumR (fun j => if Rltb epsR (MijR i j a)
                              then sumR (fun q => g fixed j q * w k q a) (seq 0 K) / MijR i j a else 0) (adj a i)) la).
    { induction la as [|a la IH]; intros init; simpl; [lra|]. rewrite IH. clear IH.
      rewrite (fold_guard_sum (adj a i) (fun j => Rltb epsR (Zij_gen R ArithR K fixed old w i j a))
                 (fun j => acc R ArithR (ks K) (fun q => g fixed j q * w k q a) 0 / Zij_gen R ArithR K fixed old w i j a)).
      assert (E : sumR (fun j => if Rltb epsR (Zij_gen R ArithR K fixed old w i j a)
                    then acc R ArithR (ks K) (fun q => g fixed j q * w k q a) 0 / Zij_gen R ArithR K fixed old w i j a else 0) (adj a i)
                = sumR (fun j => if Rltb epsR (MijR i j a) then sumR (fun q => g fixed j q * w k q a) (seq 0 K) / MijR i j a else 0) (adj a i)).
      { apply sumR_ext. intros j _. rewrite Zij_gen_R, acc_sum. unfold ks. rewrite Rplus_0_l. reflexivity. }
      rewrite E. lra. }
    rewrite H. simpl. lra.
  Qed.

  Lemma upd_entry i k : (i < N)%nat -> (k < K)%nat ->
    g (upd_vertices_gen R ArithR N K L adj numl denl fixed old w) i k =
      if existsb (Nat.eqb i) numl then
        if Rltb epsR (ZkR k) then
          if Rltb epsR (g old i k) then trunc R ArithR (g old i k / ZkR k * valR i k) else g old i k
        else g old i k
      else g old i k.
  Proof.
    intros Hi Hk. unfold upd_vertices_gen. rewrite mget_mtab by assumption.
    rewrite Zk_gen_R, val_gen_R. reflexivity.
  Qed.
End UFormula.
Print Assumptions upd_entry.
