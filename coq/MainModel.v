(* MainModel.v -- model of multitensor_factorization (include/multitensor/main.hpp:65-228):
   the chain of argument checks, network construction, the solver run and the copy-out.
   The prior contents of the four output containers are INPUTS of the model because the code
   can see them.  `ovr` models the verification hook likelihood_computed (identity when no
   hook is installed). *)
From Coq Require Import List Arith Bool.
Import ListNotations.
From MT Require Import Arith SweepModel GraphModel InitModel CtrlModel.

Section Main.
  Variable num : Type.
  Variable A : Arith num.
  Variable label : Type.
  Variable leqb : label -> label -> bool.
  Variable wt : Type.                       (* weight type *)
  Variable countf : wt -> nat.              (* multiplicity of a weight (count_int, count_real) *)
  Notation Z0 := (zero A).

  (* -------- flat affinity vector <-> structured tensor (tensor.hpp:64 layout) -------- *)
  Definition w_of_flat_gen (K L : nat) (f : list num) : list (matrix num) :=
    map (fun a => mtab num K K (fun k q => nth (k + q * K + a * K * K) f Z0)) (seq 0 L).
  Definition flat_of_w_gen (K L : nat) (w : list (matrix num)) : list num :=
    flat_map (fun a => flat_map (fun q => map (fun k => tget num A w k q a) (seq 0 K)) (seq 0 K)) (seq 0 L).
  Definition w_of_flat_ass (K L : nat) (f : list num) : list (list num) :=
    map (fun a => map (fun k => nth (k + a * K) f Z0) (seq 0 K)) (seq 0 L).
  Definition flat_of_w_ass (K L : nat) (w : list (list num)) : list num :=
    flat_map (fun a => map (fun k => dget num A w k a) (seq 0 K)) (seq 0 L).

  (* -------- records -------- *)
  Fixpoint chunk {T} (L : nat) (n : nat) (l : list T) : list (list T) :=
    match n with O => [] | S n' => firstn L l :: chunk L n' (skipn L l) end.
  Fixpoint zip3 (s e : list label) (c : list (list nat)) : list (label * label * list nat) :=
    match s, e, c with
    | x :: s', y :: e', z :: c' => (x, y, z) :: zip3 s' e' c'
    | _, _, _ => []
    end.
  Definition records (L : nat) (starts ends : list label) (weights : list wt) :=
    zip3 starts ends (map (map countf) (chunk L (length starts) weights)).

  (* -------- validation (main.hpp:77-179) -------- *)
  Inductive verdict := Reject (code : nat) | Accept (L K N : nat).
  Definition validate (assort : bool) (starts ends : list label) (weights : list wt)
             (aff_size u_rows u_cols r maxit nconv : nat) : verdict :=
    let ne := length starts in
    if ne <? 1 then Reject 1 else
    if negb (ne =? length ends) then Reject 2 else
    if negb (length weights mod ne =? 0) then Reject 3 else
    let L := length weights / ne in
    if L <? 1 then Reject 4 else
    let K := if assort then aff_size / L else Nat.sqrt (aff_size / L) in
    let sz := if assort then K * L else K * K * L in
    if K <? 2 then Reject 5 else
    if negb (sz =? aff_size) then Reject 6 else
    let N := get_num_vertices label leqb starts ends in
    if N <? 2 then Reject 7 else
    if negb (N * K =? u_rows * u_cols) then Reject 8 else
    if negb ((u_rows =? N) && (u_cols =? K)) then Reject 8 else
    if r <? 1 then Reject 9 else
    if maxit <? 1 then Reject 10 else
    if nconv <? 1 then Reject 11 else
    Accept L K N.

  Record result := { r_labels : list label; r_u : matrix num; r_v : matrix num;
                     r_aff : list num; r_rep : list (nat * reason * num) }.
  Inductive outcome := Error (code : nat) | Ok (res : result).

  Variable ovr : nat -> nat -> num -> num.   (* hook likelihood_computed: (realization, iteration, L2) -> L2 *)

  (* solver.run + copy-out, generic in the affinity representation *)
  Section Core.
    Variable W : Type.
    Variable sw : matrix num * matrix num * W -> matrix num * matrix num * W.
    Variable lk : nat -> nat -> matrix num * matrix num * W -> num.
    Variable IC : Type.
    Variable initw : IC -> W -> list num -> IC * W * list num.
    Variable toflat : W -> list num.
    Variables (directed : bool) (N K : nat) (ul vl : list nat) (r maxit nconv : nat).
    Definition bufs0 (u0 v0 : matrix num) (w0 wz : W) (ic0 : IC) (stream : list num) : bufs num W IC :=
      {| cu := u0; cv := v0; cw := w0; tu := zeros num A N K; tv := []; tw := wz;
         ic := ic0; strm := stream; rep := [] |}.
    Definition core (labels : list label) (b0 : bufs num W IC) : result :=
      let b := run num A W sw lk IC initw directed N K ul vl r maxit nconv b0 in
      {| r_labels := labels; r_u := cu _ _ _ b; r_v := cv _ _ _ b;
         r_aff := toflat (cw _ _ _ b); r_rep := rep _ _ _ b |}.
    (* observability only: the start state of every realization (affinity flat) *)
    Definition core_starts (b0 : bufs num W IC) : list (matrix num * matrix num * list num) :=
      map (fun p => let '(u, v, w) := fst p in (u, v, toflat w))
          (run_tr num A W sw lk IC initw directed N K ul vl (seq 0 r) maxit nconv b0).
  End Core.

  Section Call.
    Variables (directed assort from_init : bool)
              (starts ends : list label) (weights : list wt) (r maxit nconv : nat)
              (labels0 : list label) (u_rows u_cols : nat) (u0 v0 : matrix num) (aff0 : list num)
              (stream : list num).

    Definition the_net (L : nat) := build label leqb directed L (records L starts ends weights).

    Definition factorize : outcome :=
      match validate assort starts ends weights (length aff0) u_rows u_cols r maxit nconv with
      | Reject c => Error c
      | Accept L K N =>
          let g := the_net L in
          let G := graph_of label directed g in
          if assort then
            let sw := sweep_ass num A N K L directed G in
            let lk := fun r it s => ovr r it (lik_ass_state num A N K L directed G s) in
            let w0 := w_of_flat_ass K L aff0 in
            let wz := w_of_flat_ass K L (repeat Z0 (K * L)) in
            if from_init then
              Ok (core _ sw lk _ (step_from_ass num A K L) (flat_of_w_ass K L) directed N K (gul G) (gvl G)
                       r maxit nconv (tbl label g) (bufs0 _ _ N K u0 v0 w0 wz None stream))
            else
              Ok (core _ sw lk _ (step_random_ass num A K L) (flat_of_w_ass K L) directed N K (gul G) (gvl G)
                       r maxit nconv (tbl label g) (bufs0 _ _ N K u0 v0 w0 wz tt stream))
          else
            let sw := sweep_gen num A N K L directed G in
            let lk := fun r it s => ovr r it (lik_gen_state num A N K L directed G s) in
            let w0 := w_of_flat_gen K L aff0 in
            let wz := w_of_flat_gen K L (repeat Z0 (K * K * L)) in
            if from_init then
              Ok (core _ sw lk _ (step_from_gen num A K L) (flat_of_w_gen K L) directed N K (gul G) (gvl G)
                       r maxit nconv (tbl label g) (bufs0 _ _ N K u0 v0 w0 wz None stream))
            else
              Ok (core _ sw lk _ (step_random_gen num A K L) (flat_of_w_gen K L) directed N K (gul G) (gvl G)
                       r maxit nconv (tbl label g) (bufs0 _ _ N K u0 v0 w0 wz tt stream))
      end.

    Definition factorize_starts : list (matrix num * matrix num * list num) :=
      match validate assort starts ends weights (length aff0) u_rows u_cols r maxit nconv with
      | Reject c => []
      | Accept L K N =>
          let g := the_net L in
          let G := graph_of label directed g in
          if assort then
            let sw := sweep_ass num A N K L directed G in
            let lk := fun r it s => ovr r it (lik_ass_state num A N K L directed G s) in
            let w0 := w_of_flat_ass K L aff0 in
            let wz := w_of_flat_ass K L (repeat Z0 (K * L)) in
            if from_init then
              core_starts _ sw lk _ (step_from_ass num A K L) (flat_of_w_ass K L) directed N K (gul G) (gvl G)
                       r maxit nconv (bufs0 _ _ N K u0 v0 w0 wz None stream)
            else
              core_starts _ sw lk _ (step_random_ass num A K L) (flat_of_w_ass K L) directed N K (gul G) (gvl G)
                       r maxit nconv (bufs0 _ _ N K u0 v0 w0 wz tt stream)
          else
            let sw := sweep_gen num A N K L directed G in
            let lk := fun r it s => ovr r it (lik_gen_state num A N K L directed G s) in
            let w0 := w_of_flat_gen K L aff0 in
            let wz := w_of_flat_gen K L (repeat Z0 (K * K * L)) in
            if from_init then
              core_starts _ sw lk _ (step_from_gen num A K L) (flat_of_w_gen K L) directed N K (gul G) (gvl G)
                       r maxit nconv (bufs0 _ _ N K u0 v0 w0 wz None stream)
            else
              core_starts _ sw lk _ (step_random_gen num A K L) (flat_of_w_gen K L) directed N K (gul G) (gvl G)
                       r maxit nconv (bufs0 _ _ N K u0 v0 w0 wz tt stream)
      end.
  End Call.
End Main.
