(* DispatchSpec.v -- the variant-selection tables of the two front ends (regenerated from the sources by the
   translators T3 and T5): the canonical mapping (directed, assortative, affinity file[, weight type]) ->
   library instantiation.  Finite: closed by case analysis + vm_compute. *)
From Coq Require Import List String Bool Arith.
Import ListNotations.

Local Open Scope string_scope.

Fixpoint slist_eqb (a b : list string) : bool :=
  match a, b with
  | [], [] => true
  | x :: a', y :: b' => String.eqb x y && slist_eqb a' b'
  | _, _ => false
  end.
Lemma slist_eqb_eq a b : slist_eqb a b = true -> a = b.
Proof.
  revert b. induction a as [|x a IH]; intros [|y b] H; try discriminate; [reflexivity|].
  cbn in H. apply andb_true_iff in H. destruct H as [H1 H2]. apply String.eqb_eq in H1. subst. f_equal. apply IH, H2.
Qed.

(* ---------------- canonical mapping ---------------- *)
Definition dir_name (directed : bool) := if directed then "bidirectionalS" else "undirectedS".
(* C++ spelling *)
Definition tensor_cxx (assort : bool) := if assort then "DiagonalTensor<double>" else "SymmetricTensor<double>".
Definition init_cxx (assort file : bool) :=
  if file then "init_symmetric_tensor_from_initial<" ++ tensor_cxx assort ++ ">" else "init_symmetric_tensor_random".
Definition expected_cli (directed assort file : bool) : list string :=
  [dir_name directed; tensor_cxx assort; init_cxx assort file].
(* Cython spelling *)
Definition tensor_pyx (assort : bool) := if assort then "DiagonalTensor[numpy.float_t]" else "SymmetricTensor[numpy.float_t]".
Definition init_pyx (assort file : bool) :=
  if file then "init_symmetric_tensor_from_initial[" ++ tensor_pyx assort ++ "]" else "init_symmetric_tensor_random".
Definition weight_pyx (wint : bool) := if wint then "numpy.int_t" else "numpy.float_t".
Definition expected_pyx (wint directed assort file : bool) : list string :=
  [dir_name directed; tensor_pyx assort; init_pyx assort file; "vertex_t"; weight_pyx wint].
(* what each positional argument of the library call must BE (recognised by value by the simulator tools/pyxsim.py):
   the two label columns and the weight columns of the adjacency data converted to the weight type named by the arguments,
   the three scalars in the library's order, a label vector and an out-membership matrix of N x K, an in-membership matrix
   that is N x K exactly for directed runs (0 x 0 otherwise), the affinity vector (zeros of the model's size, or the file's
   values laid out for the model), and a generator seeded with the user's seed *)
Definition weight_kind (wint : bool) := if wint then "int" else "float".
Definition expected_affinity_arg (assort file : bool) : string :=
  if file then
    (if assort then "affinity file: the K values of each layer via vector[numpy.float_t]"
     else "affinity file: each layer as a K x K diagonal block via vector[numpy.float_t]")
  else
    (if assort then "zero vector of size nof_groups*nof_layers : vector[numpy.float_t]"
     else "zero vector of size nof_groups*nof_groups*nof_layers : vector[numpy.float_t]").
Definition expected_pyx_args (wint directed assort file : bool) : list string :=
  ["adjacency column 0 (int) via vector[vertex_t]"; "adjacency column 1 (int) via vector[vertex_t]";
   "adjacency weight columns, record by record (" ++ weight_kind wint ++ ") via vector[" ++ weight_pyx wint ++ "]";
   "nof_realizations"; "max_nof_iterations"; "nof_convergences";
   "zero vector of size nof_vertices : vector[vertex_t]";
   "matrix nof_vertices x nof_groups";
   (if directed then "matrix nof_vertices x nof_groups" else "matrix 0 x 0");
   expected_affinity_arg assort file;
   "RandomGenerator[mt19937, uniform_real_distribution](seed)"].
