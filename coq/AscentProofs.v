(* AscentProofs.v -- property C01, "EM ascent": the Poisson log-likelihood never decreases between
   iterations, except in steps where an entry was snapped to zero by the 1e-6 truncation or an observed
   edge had a rate <= 1e-6.

   Everything is stated on the code-shaped model (SweepModel.sweep_gen / sweep_ass over ArithR) and on
   the declarative log-likelihood Spec.LLspec.

   A1  C01_sweep_directed_general       one directed sweep of the general model, LLspec
   A2  C01_lik_directed_general         the same for the quantity the solver computes (lik_gen_state)
   A3  C01_sweep_directed_assortative   one directed sweep of the assortative model (through the embedding),
       C01_lik_directed_assortative     clean hypotheses on the assortative model's own quantities
   A4  build_wfG, build_wfG_directed, build_wfG_undirected, C01_from_build
                                        the graph hypotheses hold for every network the builder produces
   A5  sweep_gen_directed_inv, C01_trajectory_directed
                                        the state invariant is preserved; ascent along a whole trajectory
   A6  C01_undirected_partial           undirected sweep: only the two half-steps minorise-maximise gives;
                                        the full claim is NOT true in general (see the comment there). *)
From Coq Require Import Reals List Lra Lia Arith Bool Permutation.
Import ListNotations.
From MT Require Import Arith J MM SweepModel RInst SumLib UBlock WBlock Chain Spec
                       GraphModel GraphProofs GraphMult LikProofs EmbedProofs.
Local Open Scope R_scope.

Notation g := (mget R ArithR).
Notation tg := (tget R ArithR).
Notation dg := (dget R ArithR).

(* ------------------------------------------------------------------------------------------ *)
(* 0. LLspec and rate_gen only read in-range indices                                          *)
(* ------------------------------------------------------------------------------------------ *)
Lemma LLspec_ext (N L : nat) (out : nat -> nat -> list nat) (r1 r2 : nat -> nat -> nat -> R) :
  (forall i j a, (i < N)%nat -> (j < N)%nat -> (a < L)%nat -> r1 i j a = r2 i j a) ->
  LLspec N L out r1 = LLspec N L out r2.
Proof.
  intros H. unfold LLspec.
  apply sumR_ext. intros a Ha. apply in_seq in Ha.
  apply sumR_ext. intros i Hi. apply in_seq in Hi.
  apply sumR_ext. intros j Hj. apply in_seq in Hj.
  rewrite (H i j a) by lia. reflexivity.
Qed.

Lemma rate_gen_ext (K : nat) (u v : matrix R) (w1 w2 : nat -> nat -> nat -> R) (i j a : nat) :
  (forall k q, (k < K)%nat -> (q < K)%nat -> w1 k q a = w2 k q a) ->
  rate_gen K u v w1 i j a = rate_gen K u v w2 i j a.
Proof.
  intros H. unfold rate_gen.
  apply sumR_ext. intros k Hk. apply in_seq in Hk.
  apply sumR_ext. intros q Hq. apply in_seq in Hq.
  rewrite (H k q) by lia. reflexivity.
Qed.

(* the accessor view of Solver::update_affinity, entry by entry *)
Lemma tget_upd_affinity_gen N K L out ul vl u v (w : nat -> nat -> nat -> R) k q a :
  (k < K)%nat -> (q < K)%nat -> (a < L)%nat ->
  tg (upd_affinity_gen R ArithR N K L out ul vl u v w) k q a
  = new_w_gen R ArithR N K out ul vl u v w k q a.
Proof.
  intros Hk Hq Ha. unfold tget, upd_affinity_gen, layers.
  rewrite (nth_map_seq (fun a => mtab R K K (fun k q => new_w_gen R ArithR N K out ul vl u v w k q a)) [] L a Ha).
  exact (mget_mtab K K (fun k q => new_w_gen R ArithR N K out ul vl u v w k q a) k q Hk Hq).
Qed.

(* out-of-range reads of a tabulated tensor give zero *)
Lemma tget_tab_out K L (f : nat -> nat -> nat -> R) k q a :
  (K <= k)%nat \/ (K <= q)%nat \/ (L <= a)%nat ->
  tg (map (fun a => mtab R K K (fun k q => f k q a)) (seq 0 L)) k q a = 0.
Proof.
  intros H. unfold tget. destruct (lt_dec a L) as [Ha|Ha].
  - rewrite (nth_map_seq (fun a => mtab R K K (fun k q => f k q a)) [] L a Ha).
    apply mget_mtab_out. lia.
  - rewrite (nth_overflow (map _ (seq 0 L))) by (rewrite map_length, seq_length; lia).
    unfold mget. destruct k; destruct q; reflexivity.
Qed.

Lemma In_Acount (out : nat -> nat -> list nat) a i j : (0 < Acount out a i j)%nat <-> In j (out a i).
Proof. unfold Acount. symmetry. apply count_occ_In. Qed.

Lemma trunc_0 : trunc R ArithR 0 = 0.
Proof. unfold trunc. cbn [ltb absn eps zero ArithR]. destruct (Rltb (Rabs 0) epsR); reflexivity. Qed.

(* ------------------------------------------------------------------------------------------ *)
(* A1. one directed sweep of the general model                                                 *)
(* ------------------------------------------------------------------------------------------ *)

(* A "clean" directed step of the general model from (u, v, w): at each of the three intermediate
   states every observed edge has a rate above eps (c1, c2, c3) and none of the values the three updates
   compute is snapped to zero by the truncation (t1, t2, t3).  These are the six hypotheses of
   Chain.sweep_ascent_directed_general, on the model's own intermediate values u1, v1. *)
Definition clean_directed_gen (N K L : nat) (G : graph) (u v : matrix R) (w : nat -> nat -> nat -> R) : Prop :=
  let wT := fun k l a => w l k a in
  let u1 := upd_vertices_gen R ArithR N K L (gout G) (gul G) (gvl G) v u w in
  let v1 := upd_vertices_gen R ArithR N K L (gin G) (gvl G) (gul G) u1 v wT in
  (* c1 *) (forall a i j, (a < L)%nat -> (i < N)%nat -> In j (gout G a i) -> epsR < rate_gen K u v w i j a) /\
  (* t1 *) (forall i k, (i < N)%nat -> (k < K)%nat ->
              let x := g u i k / ZkR K L (gvl G) v w k * valR K L (gout G) v u w i k in trunc R ArithR x = x) /\
  (* c2 *) (forall a j i, (a < L)%nat -> (j < N)%nat -> In i (gin G a j) -> epsR < rate_gen K u1 v w i j a) /\
  (* t2 *) (forall j k, (j < N)%nat -> (k < K)%nat ->
              let x := g v j k / ZkR K L (gul G) u1 wT k * valR K L (gin G) u1 v wT j k in trunc R ArithR x = x) /\
  (* c3 *) (forall a i j, (a < L)%nat -> (i < N)%nat -> In j (gout G a i) -> epsR < rate_gen K u1 v1 w i j a) /\
  (* t3 *) (forall k q a, (k < K)%nat -> (q < K)%nat -> (a < L)%nat ->
              let x := w k q a / (Du N u1 k * Dv N v1 q) * wnum N K (gout G) u1 v1 w k q a in trunc R ArithR x = x).

(* the state invariant *)
Definition inv_gen (N : nat) (G : graph) (s : matrix R * matrix R * list (matrix R)) : Prop :=
  let '(u, v, w) := s in
  nonneg_m u /\ nonneg_m v /\ (forall k q a, 0 <= tg w k q a) /\
  zero_rows N (gul G) u /\ zero_rows N (gvl G) v.

(* every observed pair has a positive rate *)
Definition observed_pos (N K L : nat) (G : graph) (rate : nat -> nat -> nat -> R) : Prop :=
  forall a i j, (a < L)%nat -> (i < N)%nat -> In j (gout G a i) -> 0 < rate i j a.
Definition observed_above_eps (N K L : nat) (G : graph) (rate : nat -> nat -> nat -> R) : Prop :=
  forall a i j, (a < L)%nat -> (i < N)%nat -> In j (gout G a i) -> epsR < rate i j a.

Section DirectedGeneral.
  Variables (N K L : nat) (G : graph).
  Hypothesis W : wfG N L G.
  Hypothesis WD : wfG_directed N L G.

  (* the function-level statement: the new affinity as the function new_w_gen *)
  Lemma sweep_fun_ascent (u v : matrix R) (w : nat -> nat -> nat -> R) :
    nonneg_m u -> nonneg_m v -> (forall k q a, 0 <= w k q a) ->
    zero_rows N (gul G) u -> zero_rows N (gvl G) v ->
    clean_directed_gen N K L G u v w ->
    let u1 := upd_vertices_gen R ArithR N K L (gout G) (gul G) (gvl G) v u w in
    let v1 := upd_vertices_gen R ArithR N K L (gin G) (gvl G) (gul G) u1 v (fun k l a => w l k a) in
    let w1 := fun k q a => new_w_gen R ArithR N K (gout G) (gul G) (gvl G) u1 v1 w k q a in
    LLspec N L (gout G) (rate_gen K u v w) <= LLspec N L (gout G) (rate_gen K u1 v1 w1)
    /\ observed_pos N K L G (rate_gen K u1 v1 w1).
  Proof.
    intros Hu Hv Hw Zu Zv (c1 & t1 & c2 & t2 & c3 & t3). intros u1 v1 w1.
    destruct W as [out_lt in_lt ul_nd vl_nd ul_lt vl_lt ul_out].
    destruct WD as [perm vl_in].
    pose proof (sweep_ascent_directed_general N K L G perm ul_nd vl_nd ul_lt vl_lt u v w
                  Hu Hv Hw Zu Zv c1 t1 c2 t2 c3 t3) as [A P].
    rewrite !(LL_chain_is_spec N K L G) in A by exact out_lt.
    split; [exact A|exact P].
  Qed.

  Theorem C01_sweep_directed_general (u v : matrix R) (w : list (matrix R)) :
    nonneg_m u -> nonneg_m v -> (forall k q a, 0 <= tg w k q a) ->
    zero_rows N (gul G) u -> zero_rows N (gvl G) v ->
    clean_directed_gen N K L G u v (tg w) ->
    let '(u1, v1, w1) := sweep_gen R ArithR N K L true G (u, v, w) in
    LLspec N L (gout G) (rate_gen K u v (tg w)) <= LLspec N L (gout G) (rate_gen K u1 v1 (tg w1))
    /\ (forall a i j, (a < L)%nat -> (i < N)%nat -> In j (gout G a i) -> 0 < rate_gen K u1 v1 (tg w1) i j a).
  Proof.
    intros Hu Hv Hw Zu Zv C.
    pose proof (sweep_fun_ascent u v (tg w) Hu Hv Hw Zu Zv C) as [A P].
    cbv zeta in A, P. unfold sweep_gen.
    set (u1 := upd_vertices_gen R ArithR N K L (gout G) (gul G) (gvl G) v u (tg w)) in *.
    set (v1 := upd_vertices_gen R ArithR N K L (gin G) (gvl G) (gul G) u1 v (fun k l a => tg w l k a)) in *.
    assert (E : forall i j a, (a < L)%nat ->
              rate_gen K u1 v1 (tg (upd_affinity_gen R ArithR N K L (gout G) (gul G) (gvl G) u1 v1 (tg w))) i j a
              = rate_gen K u1 v1 (fun k q a => new_w_gen R ArithR N K (gout G) (gul G) (gvl G) u1 v1 (tg w) k q a) i j a).
    { intros i j a Ha. apply rate_gen_ext. intros k q Hk Hq. apply tget_upd_affinity_gen; assumption. }
    split.
    - rewrite (LLspec_ext N L (gout G) _ _ (fun i j a _ _ Ha => E i j a Ha)). exact A.
    - intros a i j Ha Hi Hj. rewrite E by exact Ha. apply P; assumption.
  Qed.

  (* A2: the quantity the solver itself computes *)
  Theorem C01_lik_directed_general (u v : matrix R) (w : list (matrix R)) :
    nonneg_m u -> nonneg_m v -> (forall k q a, 0 <= tg w k q a) ->
    zero_rows N (gul G) u -> zero_rows N (gvl G) v ->
    clean_directed_gen N K L G u v (tg w) ->
    (* clean_after: every observed pair has a rate above eps after the step *)
    (let '(u1, v1, w1) := sweep_gen R ArithR N K L true G (u, v, w) in
     forall a i j, (a < L)%nat -> (i < N)%nat -> In j (gout G a i) -> epsR < rate_gen K u1 v1 (tg w1) i j a) ->
    lik_gen_state R ArithR N K L true G (u, v, w)
    <= lik_gen_state R ArithR N K L true G (sweep_gen R ArithR N K L true G (u, v, w)).
  Proof.
    intros Hu Hv Hw Zu Zv C After.
    pose proof (C01_sweep_directed_general u v w Hu Hv Hw Zu Zv C) as A.
    destruct (sweep_gen R ArithR N K L true G (u, v, w)) as [[u1 v1] w1].
    destruct A as [A _].
    rewrite !lik_gen_state_formula.
    - exact A.
    - intros a i j Ha Hi Hj Hc. apply After; [exact Ha|exact Hi|]. apply In_Acount. exact Hc.
    - intros a i j Ha Hi Hj Hc. destruct C as [c1 _]. apply c1; [exact Ha|exact Hi|]. apply In_Acount. exact Hc.
  Qed.
End DirectedGeneral.

(* ------------------------------------------------------------------------------------------ *)
(* A4. the graph hypotheses hold for every network the builder can produce                     *)
(* ------------------------------------------------------------------------------------------ *)
(* the oriented pair lists of GraphMult.v are those of Spec.v *)
Lemma pairs_out_mult_spec (N : nat) (G : graph) (a : nat) :
  GraphMult.pairs_out (gout G) N a = Spec.pairs_out N G a.
Proof. reflexivity. Qed.
Lemma pairs_in_mult_spec (N : nat) (G : graph) (a : nat) :
  GraphMult.pairs_in (gin G) N a = Spec.pairs_in N G a.
Proof. reflexivity. Qed.

Section FromBuild.
  Variable label : Type.
  Variable leqb : label -> label -> bool.
  Hypothesis leqb_spec : forall a b, leqb a b = true <-> a = b.
  Variables (L : nat) (recs : list (label * label * list nat)).

  Theorem build_wfG (directed : bool) :
    let net := build label leqb directed L recs in
    wfG (num_vertices label net) L (graph_of label directed net).
  Proof.
    intros net. unfold num_vertices.
    destruct (graph_of_wf label leqb leqb_spec directed L recs)
      as (H1 & H2 & H3 & H4 & H5 & H6 & H7 & _).
    fold net in H1, H2, H3, H4, H5, H6, H7.
    constructor.
    - exact H1.
    - exact H2.
    - exact H3.
    - exact H4.
    - exact H5.
    - exact H6.
    - intros i a Hi Hn. apply H7; assumption.
  Qed.

  Theorem build_wfG_directed :
    let net := build label leqb true L recs in
    wfG_directed (num_vertices label net) L (graph_of label true net).
  Proof.
    intros net. unfold num_vertices.
    destruct (graph_of_wf label leqb leqb_spec true L recs)
      as (_ & _ & _ & _ & _ & _ & _ & H8).
    fold net in H8.
    constructor.
    - intros a Ha. rewrite <- pairs_out_mult_spec, <- pairs_in_mult_spec.
      exact (pairs_perm_directed label leqb leqb_spec L recs a Ha).
    - intros j a Hj Hn. apply H8; [exact Hj|exact Hn|reflexivity].
  Qed.

  Theorem build_wfG_undirected :
    let net := build label leqb false L recs in
    wfG_undirected (num_vertices label net) L (graph_of label false net).
  Proof.
    intros net. unfold num_vertices.
    constructor.
    - intros a Ha. rewrite <- pairs_out_mult_spec.
      exact (pairs_sym_undirected label leqb leqb_spec L recs a Ha).
    - reflexivity.
  Qed.

  (* C01 for every directed network the builder can produce: no hypothesis on the graph is left *)
  Theorem C01_from_build (K : nat) (u v : matrix R) (w : list (matrix R)) :
    let net := build label leqb true L recs in
    let N := num_vertices label net in
    let G := graph_of label true net in
    nonneg_m u -> nonneg_m v -> (forall k q a, 0 <= tg w k q a) ->
    zero_rows N (gul G) u -> zero_rows N (gvl G) v ->
    clean_directed_gen N K L G u v (tg w) ->
    let '(u1, v1, w1) := sweep_gen R ArithR N K L true G (u, v, w) in
    LLspec N L (gout G) (rate_gen K u v (tg w)) <= LLspec N L (gout G) (rate_gen K u1 v1 (tg w1))
    /\ (forall a i j, (a < L)%nat -> (i < N)%nat -> In j (gout G a i) -> 0 < rate_gen K u1 v1 (tg w1) i j a).
  Proof.
    intros net N G. apply C01_sweep_directed_general.
    - exact (build_wfG true).
    - exact build_wfG_directed.
  Qed.
End FromBuild.

(* ------------------------------------------------------------------------------------------ *)
(* A3. the assortative model, through the embedding                                            *)
(* ------------------------------------------------------------------------------------------ *)
(* Kronecker collapse of the rate *)
Lemma rate_gen_diag (K L : nat) (w : nat -> nat -> nat -> R) (wdv : nat -> nat -> R) (u v : matrix R) i j a :
  diag_on K L w wdv -> (a < L)%nat -> rate_gen K u v w i j a = rate_ass K u v wdv i j a.
Proof.
  intros Hw Ha. unfold rate_gen, rate_ass.
  apply sumR_ext. intros k Hk. apply in_seq in Hk.
  apply (sumR_collapse _ (fun q => g u i k * g v j q * wdv k a) k K); [lia|].
  intros q Hq. rewrite Hw by lia. destruct (k =? q)%nat; ring.
Qed.

Lemma rate_ass_embed (K L : nat) (wd : list (list R)) (u v : matrix R) i j a : (a < L)%nat ->
  rate_gen K u v (tg (embed K L wd)) i j a = rate_ass K u v (dg wd) i j a.
Proof. intros Ha. apply (rate_gen_diag K L); [apply tget_embed_diag|exact Ha]. Qed.

Lemma embed_nonneg (K L : nat) (wd : list (list R)) :
  (forall k a, (k < K)%nat -> (a < L)%nat -> 0 <= dg wd k a) ->
  forall k q a, 0 <= tg (embed K L wd) k q a.
Proof.
  intros H k q a.
  destruct (lt_dec k K) as [Hk|Hk]; [destruct (lt_dec q K) as [Hq|Hq]; [destruct (lt_dec a L) as [Ha|Ha]|]|].
  - rewrite tget_embed by assumption. destruct (k =? q)%nat; [apply H; assumption|lra].
  - unfold embed. rewrite (tget_tab_out K L (fun k q a => if (k =? q)%nat then dg wd k a else 0)) by lia. lra.
  - unfold embed. rewrite (tget_tab_out K L (fun k q a => if (k =? q)%nat then dg wd k a else 0)) by lia. lra.
  - unfold embed. rewrite (tget_tab_out K L (fun k q a => if (k =? q)%nat then dg wd k a else 0)) by lia. lra.
Qed.

(* closed form of the numerator of the assortative affinity update (the diagonal of WBlock.wnum) *)
Definition wnum_ass (N K : nat) (out : nat -> nat -> list nat) (u v : matrix R) (wd : nat -> nat -> R) (k a : nat) : R :=
  sumR (fun i => g u i k * sumR (fun j => if Rltb epsR (rate_ass K u v wd i j a)
                                          then g v j k / rate_ass K u v wd i j a else 0) (out a i)) (seq 0 N).

Lemma wnum_diag (N K L : nat) out (u v : matrix R) w wdv k a :
  diag_on K L w wdv -> (a < L)%nat -> wnum N K out u v w k k a = wnum_ass N K out u v wdv k a.
Proof.
  intros Hw Ha. unfold wnum, wnum_ass. apply sumR_ext. intros i _. f_equal.
  apply sumR_ext. intros j _.
  change (Mw K u v w i j a) with (rate_gen K u v w i j a).
  rewrite (rate_gen_diag K L w wdv u v i j a Hw Ha). reflexivity.
Qed.

(* A clean directed step of the ASSORTATIVE model, on the assortative model's own quantities:
   Zk_ass / val_ass are the denominators / numerators Solver::update_vertices computes for a
   DiagonalTensor; the affinity update only has the K*L diagonal entries. *)
Definition clean_directed_ass (N K L : nat) (G : graph) (u v : matrix R) (wd : nat -> nat -> R) : Prop :=
  let u1 := upd_vertices_ass R ArithR N K L (gout G) (gul G) (gvl G) v u wd in
  let v1 := upd_vertices_ass R ArithR N K L (gin G) (gvl G) (gul G) u1 v wd in
  (* c1 *) (forall a i j, (a < L)%nat -> (i < N)%nat -> In j (gout G a i) -> epsR < rate_ass K u v wd i j a) /\
  (* t1 *) (forall i k, (i < N)%nat -> (k < K)%nat ->
              let x := g u i k / Zk_ass R ArithR L (gvl G) v wd k * val_ass R ArithR K L (gout G) v u wd i k in
              trunc R ArithR x = x) /\
  (* c2 *) (forall a j i, (a < L)%nat -> (j < N)%nat -> In i (gin G a j) -> epsR < rate_ass K u1 v wd i j a) /\
  (* t2 *) (forall j k, (j < N)%nat -> (k < K)%nat ->
              let x := g v j k / Zk_ass R ArithR L (gul G) u1 wd k * val_ass R ArithR K L (gin G) u1 v wd j k in
              trunc R ArithR x = x) /\
  (* c3 *) (forall a i j, (a < L)%nat -> (i < N)%nat -> In j (gout G a i) -> epsR < rate_ass K u1 v1 wd i j a) /\
  (* t3 *) (forall k a, (k < K)%nat -> (a < L)%nat ->
              let x := wd k a / (Du N u1 k * Dv N v1 k) * wnum_ass N K (gout G) u1 v1 wd k a in
              trunc R ArithR x = x).

(* transfer: a clean assortative step is a clean step of the general model on any accessor that is
   the embedded diagonal on the in-range indices.  Off-diagonal entries are 0, their pre-truncation
   value is 0 and trunc 0 = 0, so t3 is automatic there. *)
Lemma clean_ass_gen (N K L : nat) (G : graph) (u v : matrix R) w wdv :
  diag_on K L w wdv -> clean_directed_ass N K L G u v wdv -> clean_directed_gen N K L G u v w.
Proof.
  intros Hw (c1 & t1 & c2 & t2 & c3 & t3).
  pose proof (diag_on_transpose K L w wdv Hw) as HwT.
  unfold clean_directed_gen. cbv zeta.
  rewrite (upd_vertices_embed N K L w wdv Hw).
  rewrite (upd_vertices_embed N K L _ wdv HwT).
  set (u1 := upd_vertices_ass R ArithR N K L (gout G) (gul G) (gvl G) v u wdv) in *.
  set (v1 := upd_vertices_ass R ArithR N K L (gin G) (gvl G) (gul G) u1 v wdv) in *.
  repeat split.
  - intros a i j Ha Hi Hj. rewrite (rate_gen_diag K L w wdv) by assumption. apply c1; assumption.
  - intros i k Hi Hk.
    rewrite <- Zk_gen_R, <- (val_gen_R K L).
    rewrite (Zk_embed K L w wdv Hw) by exact Hk. rewrite (val_embed K L w wdv Hw) by exact Hk.
    apply t1; assumption.
  - intros a j i Ha Hj Hi. rewrite (rate_gen_diag K L w wdv) by assumption. apply c2; assumption.
  - intros j k Hj Hk.
    rewrite <- Zk_gen_R, <- (val_gen_R K L).
    rewrite (Zk_embed K L _ wdv HwT) by exact Hk. rewrite (val_embed K L _ wdv HwT) by exact Hk.
    apply t2; assumption.
  - intros a i j Ha Hi Hj. rewrite (rate_gen_diag K L w wdv) by assumption. apply c3; assumption.
  - intros k q a Hk Hq Ha. rewrite (Hw k q a Hk Hq Ha).
    destruct (k =? q)%nat eqn:E.
    + apply Nat.eqb_eq in E. subst q. rewrite (wnum_diag N K L _ _ _ w wdv k a Hw Ha). apply t3; assumption.
    + unfold Rdiv. rewrite !Rmult_0_l. apply trunc_0.
Qed.

Section DirectedAssortative.
  Variables (N K L : nat) (G : graph).
  Hypothesis W : wfG N L G.
  Hypothesis WD : wfG_directed N L G.

  Theorem C01_sweep_directed_assortative (u v : matrix R) (wd : list (list R)) :
    nonneg_m u -> nonneg_m v -> (forall k a, (k < K)%nat -> (a < L)%nat -> 0 <= dg wd k a) ->
    zero_rows N (gul G) u -> zero_rows N (gvl G) v ->
    clean_directed_ass N K L G u v (dg wd) ->
    let '(u1, v1, wd1) := sweep_ass R ArithR N K L true G (u, v, wd) in
    LLspec N L (gout G) (rate_ass K u v (dg wd)) <= LLspec N L (gout G) (rate_ass K u1 v1 (dg wd1))
    /\ (forall a i j, (a < L)%nat -> (i < N)%nat -> In j (gout G a i) -> 0 < rate_ass K u1 v1 (dg wd1) i j a).
  Proof.
    intros Hu Hv Hw Zu Zv C.
    pose proof (C01_sweep_directed_general N K L G W WD u v (embed K L wd) Hu Hv (embed_nonneg K L wd Hw) Zu Zv
                  (clean_ass_gen N K L G u v _ _ (tget_embed_diag K L wd) C)) as A.
    rewrite E5_sweep in A.
    destruct (sweep_ass R ArithR N K L true G (u, v, wd)) as [[u1 v1] wd1].
    destruct A as [A P]. split.
    - rewrite (LLspec_ext N L (gout G) (rate_gen K u v (tg (embed K L wd))) (rate_ass K u v (dg wd))) in A
        by (intros i j a _ _ Ha; apply rate_ass_embed; exact Ha).
      rewrite (LLspec_ext N L (gout G) (rate_gen K u1 v1 (tg (embed K L wd1))) (rate_ass K u1 v1 (dg wd1))) in A
        by (intros i j a _ _ Ha; apply rate_ass_embed; exact Ha).
      exact A.
    - intros a i j Ha Hi Hj. rewrite <- (rate_ass_embed K L) by exact Ha. apply P; assumption.
  Qed.

  Theorem C01_lik_directed_assortative (u v : matrix R) (wd : list (list R)) :
    nonneg_m u -> nonneg_m v -> (forall k a, (k < K)%nat -> (a < L)%nat -> 0 <= dg wd k a) ->
    zero_rows N (gul G) u -> zero_rows N (gvl G) v ->
    clean_directed_ass N K L G u v (dg wd) ->
    (let '(u1, v1, wd1) := sweep_ass R ArithR N K L true G (u, v, wd) in
     forall a i j, (a < L)%nat -> (i < N)%nat -> In j (gout G a i) -> epsR < rate_ass K u1 v1 (dg wd1) i j a) ->
    lik_ass_state R ArithR N K L true G (u, v, wd)
    <= lik_ass_state R ArithR N K L true G (sweep_ass R ArithR N K L true G (u, v, wd)).
  Proof.
    intros Hu Hv Hw Zu Zv C After.
    pose proof (C01_sweep_directed_assortative u v wd Hu Hv Hw Zu Zv C) as A.
    destruct (sweep_ass R ArithR N K L true G (u, v, wd)) as [[u1 v1] wd1].
    destruct A as [A _].
    rewrite !lik_ass_state_formula.
    - exact A.
    - intros a i j Ha Hi Hj Hc. apply After; [exact Ha|exact Hi|]. apply In_Acount. exact Hc.
    - intros a i j Ha Hi Hj Hc. destruct C as [c1 _]. apply c1; [exact Ha|exact Hi|]. apply In_Acount. exact Hc.
  Qed.
End DirectedAssortative.

(* ------------------------------------------------------------------------------------------ *)
(* A5. the state invariant is preserved by a directed sweep; ascent along a trajectory          *)
(* ------------------------------------------------------------------------------------------ *)
Lemma wnum_nonneg N K adj (u v : matrix R) (w : nat -> nat -> nat -> R) k q a :
  nonneg_m u -> nonneg_m v -> 0 <= wnum N K adj u v w k q a.
Proof.
  intros Hu Hv. unfold wnum. apply sumR_nonneg. intros i _. apply Rmult_le_pos; [apply Hu|].
  apply sumR_nonneg. intros j _.
  destruct (Rltb epsR (Mw K u v w i j a)) eqn:E; [|lra].
  apply Rltb_true in E. unfold epsR in E. unfold Rdiv. apply Rmult_le_pos; [apply Hv|].
  left. apply Rinv_0_lt_compat. lra.
Qed.

(* the new affinity entry is a non-negative number: a quotient of non-negative quantities, truncated *)
Lemma new_w_nonneg N K adj ul vl (u v : matrix R) (w : nat -> nat -> nat -> R) :
  nonneg_m u -> nonneg_m v -> (forall k q a, 0 <= w k q a) ->
  NoDup ul -> NoDup vl -> (forall i, In i ul -> (i < N)%nat) -> (forall j, In j vl -> (j < N)%nat) ->
  zero_rows N ul u -> zero_rows N vl v ->
  forall k q a, 0 <= new_w_gen R ArithR N K adj ul vl u v w k q a.
Proof.
  intros Hu Hv Hw und vnd ult vlt Zu Zv k q a.
  rewrite (new_w_R N K adj ul vl u v w und vnd ult vlt Zu Zv).
  destruct (Rltb epsR (Du N u k * Dv N v q)) eqn:E1; [|apply Hw].
  destruct (Rltb epsR (w k q a)); [|apply Hw].
  apply trunc_nonneg. apply Rltb_true in E1. unfold epsR in E1.
  apply Rmult_le_pos; [|apply wnum_nonneg; assumption].
  unfold Rdiv. apply Rmult_le_pos; [apply Hw|]. left. apply Rinv_0_lt_compat. lra.
Qed.

Lemma upd_affinity_nonneg N K L adj ul vl (u v : matrix R) (w : nat -> nat -> nat -> R) :
  nonneg_m u -> nonneg_m v -> (forall k q a, 0 <= w k q a) ->
  NoDup ul -> NoDup vl -> (forall i, In i ul -> (i < N)%nat) -> (forall j, In j vl -> (j < N)%nat) ->
  zero_rows N ul u -> zero_rows N vl v ->
  forall k q a, 0 <= tg (upd_affinity_gen R ArithR N K L adj ul vl u v w) k q a.
Proof.
  intros Hu Hv Hw und vnd ult vlt Zu Zv k q a.
  destruct (lt_dec k K) as [Hk|Hk]; [destruct (lt_dec q K) as [Hq|Hq]; [destruct (lt_dec a L) as [Ha|Ha]|]|].
  - rewrite tget_upd_affinity_gen by assumption. apply new_w_nonneg; assumption.
  - unfold upd_affinity_gen, layers.
    rewrite (tget_tab_out K L (fun k q a => new_w_gen R ArithR N K adj ul vl u v w k q a)) by lia. lra.
  - unfold upd_affinity_gen, layers.
    rewrite (tget_tab_out K L (fun k q a => new_w_gen R ArithR N K adj ul vl u v w k q a)) by lia. lra.
  - unfold upd_affinity_gen, layers.
    rewrite (tget_tab_out K L (fun k q a => new_w_gen R ArithR N K adj ul vl u v w k q a)) by lia. lra.
Qed.

(* no cleanliness is needed for the invariant *)
Theorem sweep_gen_directed_inv (N K L : nat) (G : graph) s :
  wfG N L G -> inv_gen N G s -> inv_gen N G (sweep_gen R ArithR N K L true G s).
Proof.
  intros W. destruct s as [[u v] w]. intros (Hu & Hv & Hw & Zu & Zv).
  destruct W as [out_lt in_lt ul_nd vl_nd ul_lt vl_lt ul_out].
  unfold sweep_gen.
  set (u1 := upd_vertices_gen R ArithR N K L (gout G) (gul G) (gvl G) v u (tg w)).
  set (v1 := upd_vertices_gen R ArithR N K L (gin G) (gvl G) (gul G) u1 v (fun k l a => tg w l k a)).
  assert (Hu1 : nonneg_m u1) by (intros i k; apply upd_nonneg; assumption).
  assert (Hv1 : nonneg_m v1) by (intros i k; apply upd_nonneg; [exact Hv|exact Hu1|intros; apply Hw]).
  assert (Zu1 : zero_rows N (gul G) u1) by (intros i k Hi Hn; apply upd_zero_rows; [exact Hi|exact Hn|apply Zu; assumption]).
  assert (Zv1 : zero_rows N (gvl G) v1) by (intros i k Hi Hn; apply upd_zero_rows; [exact Hi|exact Hn|apply Zv; assumption]).
  unfold inv_gen. repeat split; try assumption.
  apply upd_affinity_nonneg; assumption.
Qed.

Definition LLstate (N K L : nat) (G : graph) (s : matrix R * matrix R * list (matrix R)) : R :=
  let '(u, v, w) := s in LLspec N L (gout G) (rate_gen K u v (tg w)).
Definition clean_state (N K L : nat) (G : graph) (s : matrix R * matrix R * list (matrix R)) : Prop :=
  let '(u, v, w) := s in clean_directed_gen N K L G u v (tg w).
(* iter n f x = f (f (... (f x))), n times: EmbedProofs.iter *)
Notation iter := EmbedProofs.iter.
Definition traj (N K L : nat) (G : graph) (n : nat) (s : matrix R * matrix R * list (matrix R)) :=
  iter n (sweep_gen R ArithR N K L true G) s.

Section Trajectory.
  Variables (N K L : nat) (G : graph).
  Hypothesis W : wfG N L G.
  Hypothesis WD : wfG_directed N L G.

  Lemma traj_inv s n : inv_gen N G s -> inv_gen N G (traj N K L G n s).
  Proof.
    intros I. induction n as [|n IH]; [exact I|].
    unfold traj. cbn [EmbedProofs.iter]. apply sweep_gen_directed_inv; [exact W|exact IH].
  Qed.

  Lemma step_ascent s : inv_gen N G s -> clean_state N K L G s ->
    LLstate N K L G s <= LLstate N K L G (sweep_gen R ArithR N K L true G s).
  Proof.
    destruct s as [[u v] w]. intros (Hu & Hv & Hw & Zu & Zv) C.
    pose proof (C01_sweep_directed_general N K L G W WD u v w Hu Hv Hw Zu Zv C) as A.
    unfold LLstate at 2.
    destruct (sweep_gen R ArithR N K L true G (u, v, w)) as [[u1 v1] w1].
    destruct A as [A _]. exact A.
  Qed.

  (* if the invariant holds initially and each of the first n sweeps is clean, the log-likelihood is
     non-decreasing at every one of these n sweeps *)
  Theorem C01_trajectory_directed s n :
    inv_gen N G s ->
    (forall m, (m < n)%nat -> clean_state N K L G (traj N K L G m s)) ->
    forall m, (m < n)%nat -> LLstate N K L G (traj N K L G m s) <= LLstate N K L G (traj N K L G (S m) s).
  Proof.
    intros I C m Hm.
    change (traj N K L G (S m) s) with (sweep_gen R ArithR N K L true G (traj N K L G m s)).
    apply step_ascent; [apply traj_inv; exact I|apply C; exact Hm].
  Qed.

  (* telescoped: the n-th state is at least as likely as the initial one *)
  Corollary C01_trajectory_directed_total s n :
    inv_gen N G s ->
    (forall m, (m < n)%nat -> clean_state N K L G (traj N K L G m s)) ->
    LLstate N K L G s <= LLstate N K L G (traj N K L G n s).
  Proof.
    intros I. induction n as [|n IH]; intros C.
    - unfold traj. cbn [EmbedProofs.iter]. lra.
    - assert (H1 : LLstate N K L G s <= LLstate N K L G (traj N K L G n s)) by (apply IH; intros m Hm; apply C; lia).
      pose proof (C01_trajectory_directed s (S n) I C n ltac:(lia)) as H2. lra.
  Qed.
End Trajectory.

(* ------------------------------------------------------------------------------------------ *)
(* A6. undirected sweep: what minorise-maximise does give                                      *)
(* ------------------------------------------------------------------------------------------ *)
(* In the undirected solver one membership matrix u plays both roles: the sweep computes
     u1 := upd_vertices_gen out ul vl (fixed := u) (old := u) w     and
     w1 := upd_affinity_gen out ul vl u1 u1 w.
   The membership update is the minorise-maximise step of the map  x |-> LL(x, u, w)  (second role FROZEN
   at the old u), so it yields   LL(u,u,w) <= LL(u1,u,w)   (a);  the affinity update is the exact
   minorise-maximise step at (u1,u1), so   LL(u1,u1,w) <= LL(u1,u1,w1)   (b).
   The full claim  LL(u,u,w) <= LL(u1,u1,w1)  needs the MISSING middle inequality
        LLspec N L out (rate_gen K u1 u w) <= LLspec N L out (rate_gen K u1 u1 w)
   (replacing the frozen second role by the new membership), which is NOT true in general: minorise-
   maximise says nothing about it, and the implementation has known counterexamples (asymmetric
   affinity w on a symmetrised network).  It is therefore not proved here, and C01 is NOT established for
   undirected networks; only the two half-steps below are.
   A concrete instance (evaluated numerically in floating point with a transcription of this model, NOT
   proved inside Coq): N = 2, K = 2, L = 1, one undirected edge 0 -- 1 (out 0 0 = [1], out 0 1 = [0],
   ul = vl = [0;1]),
        u = [[0.4; 0.4]; [0.6; 0.2]],   w k q 0 = [[0.2; 1.8]; [0.2; 1.2]]   (asymmetric).
   Every guard passes and nothing is truncated (all entries and rates are far above 1e-6), and
        LL(u ,u ,w ) = -3.44689...      LL(u1,u ,w ) = -3.43731...   (a) holds
        LL(u1,u1,w ) = -3.47850...      the missing middle inequality FAILS (-3.43731 > -3.47850)
        LL(u1,u1,w1) = -3.44857...      (b) holds, but  LL(u1,u1,w1) < LL(u,u,w):
   the log-likelihood DECREASES by about 1.7e-3 over this clean undirected sweep. *)
Definition clean_undirected_gen (N K L : nat) (G : graph) (u : matrix R) (w : nat -> nat -> nat -> R) : Prop :=
  let u1 := upd_vertices_gen R ArithR N K L (gout G) (gul G) (gvl G) u u w in
  (* c1 *) (forall a i j, (a < L)%nat -> (i < N)%nat -> In j (gout G a i) -> epsR < rate_gen K u u w i j a) /\
  (* t1 *) (forall i k, (i < N)%nat -> (k < K)%nat ->
              let x := g u i k / ZkR K L (gvl G) u w k * valR K L (gout G) u u w i k in trunc R ArithR x = x) /\
  (* c3 *) (forall a i j, (a < L)%nat -> (i < N)%nat -> In j (gout G a i) -> epsR < rate_gen K u1 u1 w i j a) /\
  (* t3 *) (forall k q a, (k < K)%nat -> (q < K)%nat -> (a < L)%nat ->
              let x := w k q a / (Du N u1 k * Dv N u1 q) * wnum N K (gout G) u1 u1 w k q a in trunc R ArithR x = x).

Theorem C01_undirected_partial (N K L : nat) (G : graph) (u v : matrix R) (w : list (matrix R)) :
  wfG N L G -> wfG_undirected N L G ->
  nonneg_m u -> (forall k q a, 0 <= tg w k q a) -> zero_rows N (gul G) u ->
  clean_undirected_gen N K L G u (tg w) ->
  let '(u1, v', w1) := sweep_gen R ArithR N K L false G (u, v, w) in
  (* (a) first role updated, second role held at the OLD u *)
  LLspec N L (gout G) (rate_gen K u u (tg w)) <= LLspec N L (gout G) (rate_gen K u1 u (tg w))
  (* (b) exact affinity step at (u1, u1) *)
  /\ LLspec N L (gout G) (rate_gen K u1 u1 (tg w)) <= LLspec N L (gout G) (rate_gen K u1 u1 (tg w1))
  (* the in-membership argument is returned untouched; observed rates stay positive in both half-steps *)
  /\ v' = v
  /\ (forall a i j, (a < L)%nat -> (i < N)%nat -> In j (gout G a i) -> 0 < rate_gen K u1 u (tg w) i j a)
  /\ (forall a i j, (a < L)%nat -> (i < N)%nat -> In j (gout G a i) -> 0 < rate_gen K u1 u1 (tg w1) i j a).
Proof.
  intros W WU Hu Hw Zu (c1 & t1 & c3 & t3).
  destruct W as [out_lt in_lt ul_nd vl_nd ul_lt vl_lt ul_out].
  destruct WU as [_ shared].
  assert (Zu' : zero_rows N (gvl G) u) by (rewrite shared; exact Zu).
  unfold sweep_gen.
  set (u1 := upd_vertices_gen R ArithR N K L (gout G) (gul G) (gvl G) u u (tg w)) in *.
  (* (a) *)
  pose proof (u_block_ascent N K L (gout G) (gul G) (gvl G) u u (tg w) Hu Hu Hw vl_nd vl_lt Zu'
                (fun a i j Ha Hi Hj => eq_ind_r (fun r => epsR < r) (c1 a i j Ha Hi Hj) (M_rate K u u (tg w) i j a))
                t1) as [A PA].
  unfold u' in A, PA. fold u1 in A, PA.
  rewrite <- !(LL_as_LLu N K L G) in A.
  rewrite !(LL_chain_is_spec N K L G) in A by exact out_lt.
  (* (b) *)
  assert (Hu1 : nonneg_m u1) by (intros i k; apply upd_nonneg; assumption).
  assert (Zu1 : zero_rows N (gul G) u1) by (intros i k Hi Hn; apply upd_zero_rows; [exact Hi|exact Hn|apply Zu; assumption]).
  assert (Zu1' : zero_rows N (gvl G) u1) by (rewrite shared; exact Zu1).
  pose proof (w_block_ascent N K L (gout G) (gul G) (gvl G) u1 u1 (tg w) Hu1 Hu1 Hw ul_nd vl_nd ul_lt vl_lt
                Zu1 Zu1' c3 t3) as [B PB].
  rewrite <- !(LL_as_LLw N K L G) in B.
  rewrite !(LL_chain_is_spec N K L G) in B by exact out_lt.
  unfold w' in B, PB.
  assert (E : forall i j a, (a < L)%nat ->
            rate_gen K u1 u1 (tg (upd_affinity_gen R ArithR N K L (gout G) (gul G) (gvl G) u1 u1 (tg w))) i j a
            = rate_gen K u1 u1 (fun k q a => new_w_gen R ArithR N K (gout G) (gul G) (gvl G) u1 u1 (tg w) k q a) i j a).
  { intros i j a Ha. apply rate_gen_ext. intros k q Hk Hq. apply tget_upd_affinity_gen; assumption. }
  split; [exact A|]. split; [|split; [reflexivity|split]].
  - rewrite (LLspec_ext N L (gout G) _ _ (fun i j a _ _ Ha => E i j a Ha)). exact B.
  - intros a i j Ha Hi Hj. pose proof (PA a i j Ha Hi Hj) as P. rewrite M_rate in P. exact P.
  - intros a i j Ha Hi Hj. rewrite E by exact Ha. exact (PB a i j Ha Hi Hj).
Qed.

(* ------------------------------------------------------------------------------------------ *)
(* A5'. trajectory of the assortative model                                                     *)
(* ------------------------------------------------------------------------------------------ *)
Definition inv_ass (N K L : nat) (G : graph) (s : matrix R * matrix R * list (list R)) : Prop :=
  let '(u, v, wd) := s in
  nonneg_m u /\ nonneg_m v /\ (forall k a, (k < K)%nat -> (a < L)%nat -> 0 <= dg wd k a) /\
  zero_rows N (gul G) u /\ zero_rows N (gvl G) v.
Definition LLstate_ass (N K L : nat) (G : graph) (s : matrix R * matrix R * list (list R)) : R :=
  let '(u, v, wd) := s in LLspec N L (gout G) (rate_ass K u v (dg wd)).
Definition clean_state_ass (N K L : nat) (G : graph) (s : matrix R * matrix R * list (list R)) : Prop :=
  let '(u, v, wd) := s in clean_directed_ass N K L G u v (dg wd).
Definition traj_ass (N K L : nat) (G : graph) (n : nat) (s : matrix R * matrix R * list (list R)) :=
  iter n (sweep_ass R ArithR N K L true G) s.

Theorem sweep_ass_directed_inv (N K L : nat) (G : graph) s :
  wfG N L G -> inv_ass N K L G s -> inv_ass N K L G (sweep_ass R ArithR N K L true G s).
Proof.
  intros W. destruct s as [[u v] wd]. intros (Hu & Hv & Hw & Zu & Zv).
  assert (I : inv_gen N G (u, v, embed K L wd)).
  { unfold inv_gen. repeat split; try assumption. apply embed_nonneg. exact Hw. }
  pose proof (sweep_gen_directed_inv N K L G _ W I) as I1.
  rewrite E5_sweep in I1.
  destruct (sweep_ass R ArithR N K L true G (u, v, wd)) as [[u1 v1] wd1].
  destruct I1 as (Hu1 & Hv1 & Hw1 & Zu1 & Zv1).
  unfold inv_ass. repeat split; try assumption.
  intros k a Hk Ha. specialize (Hw1 k k a). rewrite tget_embed in Hw1 by assumption.
  rewrite Nat.eqb_refl in Hw1. exact Hw1.
Qed.

Section TrajectoryAss.
  Variables (N K L : nat) (G : graph).
  Hypothesis W : wfG N L G.
  Hypothesis WD : wfG_directed N L G.

  Lemma traj_ass_inv s n : inv_ass N K L G s -> inv_ass N K L G (traj_ass N K L G n s).
  Proof.
    intros I. induction n as [|n IH]; [exact I|].
    unfold traj_ass. cbn [EmbedProofs.iter]. apply sweep_ass_directed_inv; [exact W|exact IH].
  Qed.

  Theorem C01_trajectory_directed_assortative s n :
    inv_ass N K L G s ->
    (forall m, (m < n)%nat -> clean_state_ass N K L G (traj_ass N K L G m s)) ->
    forall m, (m < n)%nat ->
      LLstate_ass N K L G (traj_ass N K L G m s) <= LLstate_ass N K L G (traj_ass N K L G (S m) s).
  Proof.
    intros I C m Hm.
    change (traj_ass N K L G (S m) s) with (sweep_ass R ArithR N K L true G (traj_ass N K L G m s)).
    pose proof (traj_ass_inv s m I) as Im. specialize (C m Hm).
    destruct (traj_ass N K L G m s) as [[u v] wd].
    destruct Im as (Hu & Hv & Hw & Zu & Zv).
    pose proof (C01_sweep_directed_assortative N K L G W WD u v wd Hu Hv Hw Zu Zv C) as A.
    unfold LLstate_ass at 2.
    destruct (sweep_ass R ArithR N K L true G (u, v, wd)) as [[u1 v1] wd1].
    destruct A as [A _]. exact A.
  Qed.
End TrajectoryAss.

(* ------------------------------------------------------------------------------------------ *)
(* A4'. the other theorems on built networks                                                    *)
(* ------------------------------------------------------------------------------------------ *)
Section FromBuild2.
  Variable label : Type.
  Variable leqb : label -> label -> bool.
  Hypothesis leqb_spec : forall a b, leqb a b = true <-> a = b.
  Variables (L : nat) (recs : list (label * label * list nat)).

  Theorem C01_from_build_assortative (K : nat) (u v : matrix R) (wd : list (list R)) :
    let net := build label leqb true L recs in
    let N := num_vertices label net in
    let G := graph_of label true net in
    nonneg_m u -> nonneg_m v -> (forall k a, (k < K)%nat -> (a < L)%nat -> 0 <= dg wd k a) ->
    zero_rows N (gul G) u -> zero_rows N (gvl G) v ->
    clean_directed_ass N K L G u v (dg wd) ->
    let '(u1, v1, wd1) := sweep_ass R ArithR N K L true G (u, v, wd) in
    LLspec N L (gout G) (rate_ass K u v (dg wd)) <= LLspec N L (gout G) (rate_ass K u1 v1 (dg wd1))
    /\ (forall a i j, (a < L)%nat -> (i < N)%nat -> In j (gout G a i) -> 0 < rate_ass K u1 v1 (dg wd1) i j a).
  Proof.
    intros net N G. apply C01_sweep_directed_assortative.
    - exact (build_wfG label leqb leqb_spec L recs true).
    - exact (build_wfG_directed label leqb leqb_spec L recs).
  Qed.

  Theorem C01_from_build_trajectory (K : nat) s n :
    let net := build label leqb true L recs in
    let N := num_vertices label net in
    let G := graph_of label true net in
    inv_gen N G s ->
    (forall m, (m < n)%nat -> clean_state N K L G (traj N K L G m s)) ->
    forall m, (m < n)%nat -> LLstate N K L G (traj N K L G m s) <= LLstate N K L G (traj N K L G (S m) s).
  Proof.
    intros net N G. apply C01_trajectory_directed.
    - exact (build_wfG label leqb leqb_spec L recs true).
    - exact (build_wfG_directed label leqb leqb_spec L recs).
  Qed.

  Theorem C01_from_build_undirected_partial (K : nat) (u v : matrix R) (w : list (matrix R)) :
    let net := build label leqb false L recs in
    let N := num_vertices label net in
    let G := graph_of label false net in
    nonneg_m u -> (forall k q a, 0 <= tg w k q a) -> zero_rows N (gul G) u ->
    clean_undirected_gen N K L G u (tg w) ->
    let '(u1, v', w1) := sweep_gen R ArithR N K L false G (u, v, w) in
    LLspec N L (gout G) (rate_gen K u u (tg w)) <= LLspec N L (gout G) (rate_gen K u1 u (tg w))
    /\ LLspec N L (gout G) (rate_gen K u1 u1 (tg w)) <= LLspec N L (gout G) (rate_gen K u1 u1 (tg w1))
    /\ v' = v
    /\ (forall a i j, (a < L)%nat -> (i < N)%nat -> In j (gout G a i) -> 0 < rate_gen K u1 u (tg w) i j a)
    /\ (forall a i j, (a < L)%nat -> (i < N)%nat -> In j (gout G a i) -> 0 < rate_gen K u1 u1 (tg w1) i j a).
  Proof.
    intros net N G. apply C01_undirected_partial.
    - exact (build_wfG label leqb leqb_spec L recs false).
    - exact (build_wfG_undirected label leqb leqb_spec L recs).
  Qed.
End FromBuild2.

Check C01_sweep_directed_general.
Check C01_lik_directed_general.
Check C01_sweep_directed_assortative.
Check C01_lik_directed_assortative.
Check build_wfG. Check build_wfG_directed. Check build_wfG_undirected.
Check C01_from_build.
Check sweep_gen_directed_inv.
Check C01_trajectory_directed.
Check C01_trajectory_directed_total.
Check C01_trajectory_directed_assortative.
Check C01_undirected_partial.

Print Assumptions C01_sweep_directed_general.
Print Assumptions C01_lik_directed_general.
Print Assumptions C01_sweep_directed_assortative.
Print Assumptions C01_lik_directed_assortative.
Print Assumptions build_wfG.
Print Assumptions build_wfG_directed.
Print Assumptions build_wfG_undirected.
Print Assumptions C01_from_build.
Print Assumptions C01_from_build_assortative.
Print Assumptions C01_from_build_trajectory.
Print Assumptions C01_from_build_undirected_partial.
Print Assumptions sweep_gen_directed_inv.
Print Assumptions C01_trajectory_directed.
Print Assumptions C01_trajectory_directed_total.
Print Assumptions C01_trajectory_directed_assortative.
Print Assumptions C01_undirected_partial.
