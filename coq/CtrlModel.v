(* CtrlModel.v -- model of Solver::loop's control part and of Solver::run
   (include/multitensor/solver.hpp:496-523, 570-662) and of Report::max_L2 (utils.hpp:55-66),
   over an abstract sweep, likelihood and affinity initialiser, with the working buffers
   u_temp, v_temp, w_temp and the caller's u, v, w EXPLICIT (the code exchanges them by
   std::swap; u_temp and v_temp are re-zeroed by resize at the start of every realization). *)
From Coq Require Import List Arith Bool.
Import ListNotations.
From MT Require Import Arith SweepModel InitModel.

Inductive reason := NoTerm | MaxIter | Converged.

Section Run.
  Variable num : Type.
  Variable A : Arith num.
  Variable W : Type.                                   (* affinity tensor representation *)
  Notation st := (matrix num * matrix num * W)%type.

  Variable sweepf : st -> st.                          (* the three updates of one call of loop *)
  Variable likf : nat -> nat -> st -> num.             (* realization, iteration counter, state *)
  Variable IC : Type.                                  (* state of the initialiser object *)
  Variable initw : IC -> W -> list num -> IC * W * list num.

  (* `std::abs(L2_old - L2)/std::abs(L2_old) < EPS_PRECISION_LIKELIHOOD` *)
  Definition passb (Lold Lnew : num) : bool :=
    ltb A (div A (absn A (sub A Lold Lnew)) (absn A Lold)) (eps_lik A).

  Record lstate := { ls_s : st; ls_it : nat; ls_coin : nat; ls_L2 : num }.

  (* one call of Solver::loop *)
  Definition loop_step (r maxit nconv : nat) (c : lstate) : lstate * reason :=
    let s' := sweepf (ls_s c) in
    let '(coin', L2') :=
      if ls_it c mod 10 =? 0 then
        let Ln := likf r (ls_it c) s' in
        (if passb (ls_L2 c) Ln then S (ls_coin c) else 0, Ln)
      else (ls_coin c, ls_L2 c) in
    let it' := S (ls_it c) in
    ({| ls_s := s'; ls_it := it'; ls_coin := coin'; ls_L2 := L2' |},
     if coin' =? nconv then Converged else if it' =? maxit then MaxIter else NoTerm).

  (* `while (term_reason == NO_TERMINATION)`; fuel = maxit is never exhausted (proved) *)
  Fixpoint realization (fuel r maxit nconv : nat) (c : lstate) : lstate * reason :=
    match fuel with
    | O => (c, NoTerm)
    | S fuel' =>
        let '(c', rs) := loop_step r maxit nconv c in
        match rs with
        | NoTerm => realization fuel' r maxit nconv c'
        | _ => (c', rs)
        end
    end.

  (* Report::max_L2 = *std::max_element(vec_L2), lowest() when empty *)
  Definition max_L2 (ls : list num) : num :=
    match ls with
    | [] => lowest A
    | x :: r => fold_left (fun m y => if ltb A m y then y else m) r x
    end.

  Record bufs := {
    cu : matrix num; cv : matrix num; cw : W;          (* the caller's u, v, w *)
    tu : matrix num; tv : matrix num; tw : W;          (* u_temp, v_temp, w_temp *)
    ic : IC; strm : list num;
    rep : list (nat * reason * num) }.                 (* vec_iter, vec_term_reason, vec_L2 *)

  Variables (directed : bool) (N K : nat) (ul vl : list nat).

  (* state with which the i-th realization starts (after the three initialisers) *)
  Definition start_of (b : bufs) : IC * st * list num :=
    let '(ic', wt, s1) := initw (ic b) (cw b) (strm b) in
    let '(vt, s2) := if directed then init_rows num A K vl (zeros num A N K) s1 else (tv b, s1) in
    let '(ut, s3) := init_rows num A K ul (zeros num A N K) s2 in   (* u_temp.resize(N, K) re-zeroes *)
    (ic', (ut, vt, wt), s3).

  Definition one_realization (maxit nconv : nat) (b : bufs) (i : nat) : bufs :=
    let '(ic', s0, s3) := start_of b in
    let '(c, rs) := realization maxit i maxit nconv
                      {| ls_s := s0; ls_it := 0; ls_coin := 0; ls_L2 := lowest A |} in
    let '(ut, vt, wt) := ls_s c in
    let better := ltb A (max_L2 (map snd (rep b))) (ls_L2 c) in
    let rep' := rep b ++ [(ls_it c, rs, ls_L2 c)] in
    if better then
      {| cu := ut; cv := (if directed then vt else cv b); cw := wt;
         tu := cu b; tv := (if directed then cv b else vt); tw := cw b;
         ic := ic'; strm := s3; rep := rep' |}
    else
      {| cu := cu b; cv := cv b; cw := cw b; tu := ut; tv := vt; tw := wt;
         ic := ic'; strm := s3; rep := rep' |}.

  Definition run (r maxit nconv : nat) (b0 : bufs) : bufs :=
    fold_left (one_realization maxit nconv) (seq 0 r) b0.
End Run.

Arguments ls_s {_ _}. Arguments ls_it {_ _}. Arguments ls_coin {_ _}. Arguments ls_L2 {_ _}.

(* ---- traced variants (observability for the correspondence check; `run` is their projection) ---- *)
Section RunTrace.
  Variable num : Type.
  Variable A : Arith num.
  Variable W : Type.
  Notation st := (matrix num * matrix num * W)%type.
  Variable sweepf : st -> st.
  Variable likf : nat -> nat -> st -> num.
  Variable IC : Type.
  Variable initw : IC -> W -> list num -> IC * W * list num.

  (* every (state, reason) produced by the successive calls of loop in one realization *)
  Fixpoint realization_tr (fuel r maxit nconv : nat) (c : lstate num W) : list (lstate num W * reason) :=
    match fuel with
    | O => []
    | S fuel' =>
        let '(c', rs) := loop_step num A W sweepf likf r maxit nconv c in
        (c', rs) :: match rs with NoTerm => realization_tr fuel' r maxit nconv c' | _ => [] end
    end.

  Variables (directed : bool) (N K : nat) (ul vl : list nat).
  (* per realization: the start state and the buffers after it *)
  Fixpoint run_tr (is : list nat) (maxit nconv : nat) (b : bufs num W IC)
    : list (st * bufs num W IC) :=
    match is with
    | [] => []
    | i :: rest =>
        let b' := one_realization num A W sweepf likf IC initw directed N K ul vl maxit nconv b i in
        (snd (fst (start_of num A W IC initw directed N K ul vl b)), b') :: run_tr rest maxit nconv b'
    end.
End RunTrace.
