(* CtrlProofs.v -- the model of the control loop (CtrlModel.realization) refines the abstract
   control skeleton (CtrlSpec.run_ctrl) over the outcome sequence `passes` defined from the
   sweep and likelihood functions; consequently it satisfies the declarative spec `Post`. *)
From Coq Require Import Arith Bool Lia ZArith List.
Import ListNotations.
Require Import ZifyBool ZifyNat.
Ltac Zify.zify_post_hook ::= Z.div_mod_to_equations.

From MT Require Import Arith SweepModel InitModel CtrlModel CtrlSpec.

Lemma last_cons_default {X : Type} (l : list X) : forall x d, last (x :: l) d = last l x.
Proof.
  induction l as [|y l IH]; intros x d.
  - reflexivity.
  - change (last (x :: y :: l) d) with (last (y :: l) d).
    rewrite (IH y d). rewrite (IH y x). reflexivity.
Qed.

Section CtrlProofs.
  Variable num : Type.
  Variable A : Arith num.
  Variable W : Type.
  Notation st := (matrix num * matrix num * W)%type.
  Variable sweepf : st -> st.
  Variable likf : nat -> nat -> st -> num.

  Notation lst := (lstate num W).
  Notation realiz := (realization num A W sweepf likf).
  Notation realiz_tr := (realization_tr num A W sweepf likf).
  Notation lstep := (loop_step num A W sweepf likf).

  (* state after n sweeps *)
  Fixpoint iter_sweep (n : nat) (s : st) : st :=
    match n with
    | O => s
    | S n' => sweepf (iter_sweep n' s)
    end.

  (* likelihood produced by evaluation number j (j = 0, 1, 2, ...) of realization r started in s0:
     computed in the call of loop whose iteration counter is 10*j, after sweep number 10*j+1 *)
  Definition Lseq (r : nat) (s0 : st) (j : nat) : num :=
    likf r (10 * j) (iter_sweep (10 * j + 1) s0).

  (* the value evaluation j is compared against *)
  Definition Lprev (r : nat) (s0 : st) (j : nat) : num :=
    match j with
    | O => lowest A
    | S j' => Lseq r s0 j'
    end.

  Definition passes (r : nat) (s0 : st) (j : nat) : bool :=
    passb num A (Lprev r s0 j) (Lseq r s0 j).

  Lemma Lprev_if r s0 j :
    Lprev r s0 j = if j =? 0 then lowest A else Lseq r s0 (j - 1).
  Proof.
    destruct j as [|j]; [reflexivity|].
    cbn [Lprev Nat.eqb]. replace (S j - 1) with j by lia. reflexivity.
  Qed.

  (* the invariant tying a loop state to the abstract counters *)
  Definition Rel (r : nat) (s0 : st) (c : lst) : Prop :=
    ls_s c = iter_sweep (ls_it c) s0 /\ ls_L2 c = Lprev r s0 ((ls_it c + 9) / 10).

  (* one call of loop = one step of the skeleton *)
  Lemma loop_step_sim r maxit nconv s0 c :
    Rel r s0 c ->
    let '(c', rs) := lstep r maxit nconv c in
    ls_it c' = S (ls_it c) /\
    ls_coin c' = step_coin (passes r s0) (ls_it c) (ls_coin c) /\
    rs = step_reason maxit nconv (S (ls_it c)) (step_coin (passes r s0) (ls_it c) (ls_coin c)) /\
    Rel r s0 c'.
  Proof.
    intros [Hs HL]. destruct c as [s it coin L2]. cbn [ls_s ls_it ls_coin ls_L2] in *.
    unfold loop_step, step_coin, step_reason, Rel. cbn [ls_s ls_it ls_coin ls_L2].
    destruct (it mod 10 =? 0) eqn:E.
    - (* evaluation call: it = 10 * (it / 10) *)
      assert (Hit : it = 10 * (it / 10)) by lia.
      assert (Hj : (it + 9) / 10 = it / 10) by lia.
      assert (Hj' : (S it + 9) / 10 = S (it / 10)) by lia.
      assert (HLn : likf r it (sweepf s) = Lseq r s0 (it / 10)).
      { unfold Lseq. rewrite <- Hit. replace (it + 1) with (S it) by lia.
        cbn [iter_sweep]. rewrite Hs. reflexivity. }
      assert (Hp : passb num A L2 (likf r it (sweepf s)) = passes r s0 (it / 10)).
      { unfold passes. rewrite HLn, HL, Hj. reflexivity. }
      rewrite Hp. cbn [ls_s ls_it ls_coin ls_L2].
      repeat split.
      + rewrite Hs. reflexivity.
      + rewrite Hj'. cbn [Lprev]. exact HLn.
    - cbn [ls_s ls_it ls_coin ls_L2].
      repeat split.
      + rewrite Hs. reflexivity.
      + rewrite HL. f_equal. lia.
  Qed.

  (* generalized simulation: any fuel, any related state *)
  Lemma realization_sim r maxit nconv s0 fuel : forall c,
    Rel r s0 c ->
    let '(c', rs) := realiz fuel r maxit nconv c in
    let '(n, rs') := run_ctrl maxit nconv (passes r s0) fuel (ls_it c) (ls_coin c) in
    ls_it c' = n /\ rs = rs' /\ Rel r s0 c'.
  Proof.
    induction fuel as [|fuel IH]; intros c HR.
    - cbn [realization run_ctrl]. repeat split; apply HR.
    - cbn [realization run_ctrl].
      pose proof (loop_step_sim r maxit nconv s0 c HR) as Hstep.
      destruct (lstep r maxit nconv c) as [c1 rs1].
      destruct Hstep as [Hit [Hcoin [Hrs HR1]]].
      rewrite <- Hrs.
      destruct rs1.
      + specialize (IH c1 HR1). rewrite Hit, Hcoin in IH. exact IH.
      + repeat split; [exact Hit | apply HR1 | apply HR1].
      + repeat split; [exact Hit | apply HR1 | apply HR1].
  Qed.

  Definition init_ls (s0 : st) : lst :=
    {| ls_s := s0; ls_it := 0; ls_coin := 0; ls_L2 := lowest A |}.

  Lemma Rel_init r s0 : Rel r s0 (init_ls s0).
  Proof. unfold Rel, init_ls. cbn [ls_s ls_it ls_L2]. split; reflexivity. Qed.

  (* ---- T1 ---- *)
  Theorem realization_spec (r maxit nconv : nat) (s0 : st) :
    1 <= maxit -> 1 <= nconv ->
    let '(c, rs) := realization num A W sweepf likf maxit r maxit nconv
                      {| ls_s := s0; ls_it := 0; ls_coin := 0; ls_L2 := lowest A |} in
    let '(n, rs') := run_ctrl maxit nconv (passes r s0) maxit 0 0 in
    ls_it c = n /\ rs = rs' /\
    ls_s c = iter_sweep n s0 /\
    ls_L2 c = Lseq r s0 ((n - 1) / 10) /\
    rs <> NoTerm.
  Proof.
    intros Hm Hn.
    pose proof (realization_sim r maxit nconv s0 maxit (init_ls s0) (Rel_init r s0)) as Hsim.
    pose proof (run_ctrl_stop maxit nconv (passes r s0) Hm Hn) as Hpost.
    unfold init_ls in Hsim. cbn [ls_it ls_coin] in Hsim.
    destruct (realization num A W sweepf likf maxit r maxit nconv
                {| ls_s := s0; ls_it := 0; ls_coin := 0; ls_L2 := lowest A |}) as [c rs].
    destruct (run_ctrl maxit nconv (passes r s0) maxit 0 0) as [n rs'].
    destruct Hsim as [Hit [Hrs [Hs HL]]].
    destruct Hpost as [Hrange [Hreason _]].
    split; [exact Hit|]. split; [exact Hrs|].
    split; [rewrite Hs, Hit; reflexivity|].
    split.
    - rewrite HL, Hit.
      replace ((n + 9) / 10) with (S ((n - 1) / 10)) by lia. reflexivity.
    - rewrite Hrs. destruct Hreason as [[-> _]|[-> _]]; discriminate.
  Qed.

  (* ---- T2 ---- *)
  Theorem realization_post (r maxit nconv : nat) (s0 : st) :
    1 <= maxit -> 1 <= nconv ->
    let '(c, rs) := realization num A W sweepf likf maxit r maxit nconv
                      {| ls_s := s0; ls_it := 0; ls_coin := 0; ls_L2 := lowest A |} in
    Post maxit nconv (passes r s0) 0 (ls_it c) rs.
  Proof.
    intros Hm Hn.
    pose proof (realization_spec r maxit nconv s0 Hm Hn) as Hspec.
    pose proof (run_ctrl_stop maxit nconv (passes r s0) Hm Hn) as Hpost.
    destruct (realization num A W sweepf likf maxit r maxit nconv
                {| ls_s := s0; ls_it := 0; ls_coin := 0; ls_L2 := lowest A |}) as [c rs].
    destruct (run_ctrl maxit nconv (passes r s0) maxit 0 0) as [n rs'].
    destruct Hspec as [-> [-> _]]. exact Hpost.
  Qed.

  (* ---- T3 ---- *)
  (* the trace ends with the result of `realization` (default = the start state, NoTerm) *)
  Lemma realization_tr_last_gen r maxit nconv fuel : forall c,
    last (realiz_tr fuel r maxit nconv c) (c, NoTerm) = realiz fuel r maxit nconv c.
  Proof.
    induction fuel as [|fuel IH]; intros c.
    - reflexivity.
    - cbn [realization realization_tr].
      destruct (lstep r maxit nconv c) as [c1 rs1].
      destruct rs1.
      + rewrite last_cons_default. apply IH.
      + reflexivity.
      + reflexivity.
  Qed.

  (* one trace element per call of loop *)
  Lemma realization_tr_length_gen r maxit nconv s0 fuel : forall c,
    Rel r s0 c ->
    ls_it c + length (realiz_tr fuel r maxit nconv c) = ls_it (fst (realiz fuel r maxit nconv c)).
  Proof.
    induction fuel as [|fuel IH]; intros c HR.
    - cbn [realization realization_tr length fst]. lia.
    - cbn [realization realization_tr].
      pose proof (loop_step_sim r maxit nconv s0 c HR) as Hstep.
      destruct (lstep r maxit nconv c) as [c1 rs1].
      destruct Hstep as [Hit [_ [_ HR1]]].
      destruct rs1; cbn [length fst].
      + specialize (IH c1 HR1). lia.
      + lia.
      + lia.
  Qed.

  Theorem realization_tr_last (r maxit nconv : nat) (s0 : st) :
    1 <= maxit -> 1 <= nconv ->
    let c0 := {| ls_s := s0; ls_it := 0; ls_coin := 0; ls_L2 := lowest A |} in
    let tr := realization_tr num A W sweepf likf maxit r maxit nconv c0 in
    let res := realization num A W sweepf likf maxit r maxit nconv c0 in
    tr <> [] /\
    (forall d, last tr d = res) /\
    length tr = ls_it (fst res) /\
    length tr = fst (run_ctrl maxit nconv (passes r s0) maxit 0 0).
  Proof.
    intros Hm Hn c0 tr res.
    pose proof (realization_tr_last_gen r maxit nconv maxit c0) as Hlast.
    pose proof (realization_tr_length_gen r maxit nconv s0 maxit c0 (Rel_init r s0)) as Hlen.
    pose proof (realization_spec r maxit nconv s0 Hm Hn) as Hspec.
    pose proof (run_ctrl_stop maxit nconv (passes r s0) Hm Hn) as Hpost.
    fold c0 in Hspec. fold tr in Hlast, Hlen. fold res in Hlast, Hlen, Hspec.
    destruct res as [c rs] eqn:Eres.
    destruct (run_ctrl maxit nconv (passes r s0) maxit 0 0) as [n rs'].
    destruct Hspec as [Hit _]. destruct Hpost as [Hrange _].
    cbn [fst ls_it c0] in *.
    assert (Hne : tr <> []).
    { intros E. rewrite E in Hlen. cbn [length] in Hlen. lia. }
    split; [exact Hne|]. split; [|split; lia].
    intros d. destruct tr as [|x l]; [congruence|].
    rewrite last_cons_default. rewrite last_cons_default in Hlast. exact Hlast.
  Qed.
End CtrlProofs.

Print Assumptions realization_tr_last.
Print Assumptions realization_spec.
Print Assumptions realization_post.
