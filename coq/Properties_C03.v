(* Properties_C03.v -- C03: results are well-formed -- shape, labels, finite, non-negative, zero rows.
   Structure (every arithmetic, whole entry point): labels = distinct vertex labels in order of first appearance, one membership row
   each, K columns, all-zero rows for vertices without outgoing (incoming) edges, one report entry per realization -- for outputs
   zero-initialised or not (the model re-zeroes the working matrices), provided some realization is adopted.
   Values (ArithR, exact reals): every membership and affinity value is >= 0 when the draws and the supplied affinity are; every
   division and logarithm of the model sits under a guard making its argument > 1e-6 (guards_positive: replacing / and ln by
   arbitrary functions outside the guarded domain changes nothing), which is the exact-arithmetic content of `finite`.
   NOT verified: overflow to +-inf in binary64 (no magnitude bound is proved); asserted as a test on every correspondence case.
   Only statements; every proof is `exact <lemma>` (proofs live in the files imported below). *)
From Coq Require Import Arith List Bool Reals Floats.
Import ListNotations.
From MT Require Import Arith J SweepModel RInst Spec GraphModel InitModel CtrlModel MainModel RunProofs WellFormed InvProofs FactorizeProofs.
Local Open Scope R_scope.

Theorem C03_structure : forall (num : Type) (A : Arith num) (label : Type) (leqb : label -> label -> bool),
       (forall a b : label, leqb a b = true <-> a = b) ->
       forall (wt : Type) (countf : wt -> nat) (ovr : nat -> nat -> num -> num)
         (directed assort from_init : bool) (starts ends : list label) (weights : list wt)
         (r maxit nconv u_rows u_cols : nat) (u0 v0 : matrix num) (aff0 stream : list num)
         (res : result num label) (L K N : nat),
       factorize num A label leqb wt countf ovr directed assort from_init starts ends weights r maxit
         nconv u_rows u_cols u0 v0 aff0 stream = Ok num label res ->
       validate label leqb wt assort starts ends weights (length aff0) u_rows u_cols r maxit nconv =
       Accept L K N ->
       best_index num A (map snd (r_rep num label res)) <> None ->
       let g := build label leqb directed L (records label wt countf L starts ends weights) in
       r_labels num label res = tbl label g /\
       r_labels num label res = dedup label leqb [] (interleave (combine starts ends)) /\
       NoDup (r_labels num label res) /\
       length (r_labels num label res) = N /\
       InitProofs.mshape num N K (r_u num label res) /\
       (directed = true -> InitProofs.mshape num N K (r_v num label res)) /\
       (forall i k : nat,
        (i < N)%nat ->
        (k < K)%nat -> ~ In i (u_list label g) -> mget num A (r_u num label res) i k = zero A) /\
       (directed = true ->
        forall i k : nat,
        (i < N)%nat ->
        (k < K)%nat -> ~ In i (v_list label true g) -> mget num A (r_v num label res) i k = zero A) /\
       length (r_rep num label res) = r.
Proof. exact factorize_wellformed_structure. Qed.
Print Assumptions C03_structure.

(* labels, N and the report length need no adoption proviso *)
Theorem C03_labels : forall (num : Type) (A : Arith num) (label : Type) (leqb : label -> label -> bool),
       (forall a b : label, leqb a b = true <-> a = b) ->
       forall (wt : Type) (countf : wt -> nat) (ovr : nat -> nat -> num -> num)
         (directed assort from_init : bool) (starts ends : list label) (weights : list wt)
         (r maxit nconv u_rows u_cols : nat) (u0 v0 : matrix num) (aff0 stream : list num)
         (res : result num label) (L K N : nat),
       factorize num A label leqb wt countf ovr directed assort from_init starts ends weights r maxit
         nconv u_rows u_cols u0 v0 aff0 stream = Ok num label res ->
       validate label leqb wt assort starts ends weights (length aff0) u_rows u_cols r maxit nconv =
       Accept L K N ->
       r_labels num label res =
       tbl label (build label leqb directed L (records label wt countf L starts ends weights)) /\
       r_labels num label res =
       dedup label leqb []
         (flat_map (fun r0 : label * label * list nat => [fst (fst r0); snd (fst r0)])
            (records label wt countf L starts ends weights)) /\
       r_labels num label res = dedup label leqb [] (interleave (combine starts ends)) /\
       NoDup (r_labels num label res) /\
       length (r_labels num label res) = N /\
       N = get_num_vertices label leqb starts ends /\ length (r_rep num label res) = r.
Proof. exact factorize_labels. Qed.
Print Assumptions C03_labels.

(* row form: a vertex with no outgoing (incoming) edge in any layer has an all-zero row *)
Theorem C03_isolated_rows_zero : forall (num : Type) (A : Arith num) (label : Type) (leqb : label -> label -> bool),
       (forall a b : label, leqb a b = true <-> a = b) ->
       forall (wt : Type) (countf : wt -> nat) (ovr : nat -> nat -> num -> num)
         (directed assort from_init : bool) (starts ends : list label) (weights : list wt)
         (r maxit nconv u_rows u_cols : nat) (u0 v0 : matrix num) (aff0 stream : list num)
         (res : result num label) (L K N : nat),
       factorize num A label leqb wt countf ovr directed assort from_init starts ends weights r maxit
         nconv u_rows u_cols u0 v0 aff0 stream = Ok num label res ->
       validate label leqb wt assort starts ends weights (length aff0) u_rows u_cols r maxit nconv =
       Accept L K N ->
       best_index num A (map snd (r_rep num label res)) <> None ->
       let g := build label leqb directed L (records label wt countf L starts ends weights) in
       (forall i : nat,
        (i < N)%nat ->
        (forall y : layer, In y (lays label g) -> nth i (lout y) [] = []) ->
        nth i (r_u num label res) [] = repeat (zero A) K) /\
       (directed = true ->
        forall i : nat,
        (i < N)%nat ->
        (forall y : layer, In y (lays label g) -> nth i (lin y) [] = []) ->
        nth i (r_v num label res) [] = repeat (zero A) K).
Proof. exact factorize_isolated_rows_zero. Qed.
Print Assumptions C03_isolated_rows_zero.

Theorem C03_nonnegative : forall (label : Type) (leqb : label -> label -> bool) (wt : Type) (countf : wt -> nat)
         (ovr : nat -> nat -> R -> R) (directed assort from_init : bool) (starts ends : list label)
         (weights : list wt) (r maxit nconv u_rows u_cols : nat) (u0 v0 : matrix R)
         (aff0 stream : list R) (res : result R label),
       factorize R ArithR label leqb wt countf ovr directed assort from_init starts ends weights r
         maxit nconv u_rows u_cols u0 v0 aff0 stream = Ok R label res ->
       Forall (fun x : R => 0 <= x) stream ->
       Forall (fun x : R => 0 <= x) aff0 ->
       Forall (fun x : R => 0 <= x) (r_aff R label res) /\
       (best_index R ArithR (map snd (r_rep R label res)) <> None ->
        (forall i k : nat, 0 <= mget R ArithR (r_u R label res) i k) /\
        Forall (Forall (fun x : R => 0 <= x)) (r_u R label res) /\
        (directed = true ->
         (forall i k : nat, 0 <= mget R ArithR (r_v R label res) i k) /\
         Forall (Forall (fun x : R => 0 <= x)) (r_v R label res))).
Proof. exact factorize_nonneg. Qed.
Print Assumptions C03_nonnegative.

(* no division by, and no logarithm of, a value <= 1e-6 is ever used *)
Theorem C03_guards : forall (dv : R -> R -> R) (lg : R -> R),
       (forall x y : R, epsR < y -> dv x y = x / y) ->
       (forall x : R, epsR < x -> lg x = Rpower.ln x) ->
       (forall x : R, Rltb epsR x = true -> 0 < x) /\
       (forall (N K L : nat) (d : bool) (G : graph) (s : matrix R * matrix R * list (matrix R)),
        sweep_gen R (ArithR' dv lg) N K L d G s = sweep_gen R ArithR N K L d G s) /\
       (forall (N K L : nat) (d : bool) (G : graph) (s : matrix R * matrix R * list (list R)),
        sweep_ass R (ArithR' dv lg) N K L d G s = sweep_ass R ArithR N K L d G s) /\
       (forall (N K L : nat) (out : nat -> nat -> list nat) (u v : matrix R)
          (w : nat -> nat -> nat -> R),
        lik_gen R (ArithR' dv lg) N K L out u v w = lik_gen R ArithR N K L out u v w) /\
       (forall (N K L : nat) (out : nat -> nat -> list nat) (u v : matrix R) (wd : nat -> nat -> R),
        lik_ass R (ArithR' dv lg) N K L out u v wd = lik_ass R ArithR N K L out u v wd).
Proof. exact guards_positive. Qed.
Print Assumptions C03_guards.

(* the proviso holds as soon as the first reported likelihood exceeds lowest() *)
Theorem C03_adopted_when_first_likelihood_is_a_number : forall (num : Type) (A : Arith num) (ls : list num),
       ls <> [] -> ltb A (lowest A) (hd (lowest A) ls) = true -> best_index num A ls <> None.
Proof. exact first_above_lowest_adopted. Qed.
Print Assumptions C03_adopted_when_first_likelihood_is_a_number.

