(* Properties_C03.v -- C03: results are well-formed -- shape, labels, finite, non-negative, zero rows.
   Structure (every arithmetic, whole entry point): labels = distinct vertex labels in order of first appearance, one membership row
   each, K columns, all-zero rows for vertices without outgoing (incoming) edges, one report entry per realization -- for outputs
   zero-initialised or not (the model re-zeroes the working matrices), provided some realization is adopted.
   Values (ArithR, exact reals): every membership and affinity value is >= 0 when the draws and the supplied affinity are; every
   division and logarithm of the model sits under a guard making its argument > 1e-6 (guards_positive: replacing / and ln by
   arbitrary functions outside the guarded domain changes nothing), which is the exact-arithmetic content of `finite`.
   NOT verified: overflow to +-inf in binary64 (no magnitude bound is proved); asserted as a test on every correspondence case.
   Only statements; every proof is `exact <lemma>` (proofs live in the files imported below). *)
From Coq Require Import Arith List Bool Reals Floats ZArith Floats.
Import ListNotations.
From MT Require Import Arith J SweepModel RInst Spec GraphModel InitModel CtrlModel MainModel RunProofs WellFormed InvProofs FactorizeProofs InitModel CtrlModel CtrlProofs FloatInst Mt19937 FloatSign ClosureProofs FloatNonneg.
Local Open Scope R_scope.

Theorem C03_structure : forall (num : Type) (A : Arith num) (label : Type) (leqb : label -> label -> bool),
       (forall a b : label, leqb a b = true <-> a = b) ->
       forall (wt : Type) (countf : wt -> nat) (ovr : nat -> nat -> num -> num)
         (directed assort from_init : bool) (starts ends : list label) (weights : list wt)
         (r maxit nconv u_rows u_cols : nat) (u0 v0 : matrix num) (aff0 stream : list num)
         (res : result num label) (L K N : nat),
       factorize num A label leqb wt countf ovr directed assort from_init starts ends weights r maxit
         nconv u_rows u_cols u0 v0 aff0 stream = Ok num label res ->
       validate label leqb wt assort starts ends weights (length aff0) u_rows u_cols r maxit nconv =
       Accept L K N ->
       best_index num A (map snd (r_rep num label res)) <> None ->
       let g := build label leqb directed L (records label wt countf L starts ends weights) in
       r_labels num label res = tbl label g /\
       r_labels num label res = dedup label leqb [] (interleave (combine starts ends)) /\
       NoDup (r_labels num label res) /\
       length (r_labels num label res) = N /\
       InitProofs.mshape num N K (r_u num label res) /\
       (directed = true -> InitProofs.mshape num N K (r_v num label res)) /\
       (forall i k : nat,
        (i < N)%nat ->
        (k < K)%nat -> ~ In i (u_list label g) -> mget num A (r_u num label res) i k = zero A) /\
       (directed = true ->
        forall i k : nat,
        (i < N)%nat ->
        (k < K)%nat -> ~ In i (v_list label true g) -> mget num A (r_v num label res) i k = zero A) /\
       length (r_rep num label res) = r.
Proof. exact factorize_wellformed_structure. Qed.
Print Assumptions C03_structure.

(* labels, N and the report length need no adoption proviso *)
Theorem C03_labels : forall (num : Type) (A : Arith num) (label : Type) (leqb : label -> label -> bool),
       (forall a b : label, leqb a b = true <-> a = b) ->
       forall (wt : Type) (countf : wt -> nat) (ovr : nat -> nat -> num -> num)
         (directed assort from_init : bool) (starts ends : list label) (weights : list wt)
         (r maxit nconv u_rows u_cols : nat) (u0 v0 : matrix num) (aff0 stream : list num)
         (res : result num label) (L K N : nat),
       factorize num A label leqb wt countf ovr directed assort from_init starts ends weights r maxit
         nconv u_rows u_cols u0 v0 aff0 stream = Ok num label res ->
       validate label leqb wt assort starts ends weights (length aff0) u_rows u_cols r maxit nconv =
       Accept L K N ->
       r_labels num label res =
       tbl label (build label leqb directed L (records label wt countf L starts ends weights)) /\
       r_labels num label res =
       dedup label leqb []
         (flat_map (fun r0 : label * label * list nat => [fst (fst r0); snd (fst r0)])
            (records label wt countf L starts ends weights)) /\
       r_labels num label res = dedup label leqb [] (interleave (combine starts ends)) /\
       NoDup (r_labels num label res) /\
       length (r_labels num label res) = N /\
       N = get_num_vertices label leqb starts ends /\ length (r_rep num label res) = r.
Proof. exact factorize_labels. Qed.
Print Assumptions C03_labels.

(* row form: a vertex with no outgoing (incoming) edge in any layer has an all-zero row *)
Theorem C03_isolated_rows_zero : forall (num : Type) (A : Arith num) (label : Type) (leqb : label -> label -> bool),
       (forall a b : label, leqb a b = true <-> a = b) ->
       forall (wt : Type) (countf : wt -> nat) (ovr : nat -> nat -> num -> num)
         (directed assort from_init : bool) (starts ends : list label) (weights : list wt)
         (r maxit nconv u_rows u_cols : nat) (u0 v0 : matrix num) (aff0 stream : list num)
         (res : result num label) (L K N : nat),
       factorize num A label leqb wt countf ovr directed assort from_init starts ends weights r maxit
         nconv u_rows u_cols u0 v0 aff0 stream = Ok num label res ->
       validate label leqb wt assort starts ends weights (length aff0) u_rows u_cols r maxit nconv =
       Accept L K N ->
       best_index num A (map snd (r_rep num label res)) <> None ->
       let g := build label leqb directed L (records label wt countf L starts ends weights) in
       (forall i : nat,
        (i < N)%nat ->
        (forall y : layer, In y (lays label g) -> nth i (lout y) [] = []) ->
        nth i (r_u num label res) [] = repeat (zero A) K) /\
       (directed = true ->
        forall i : nat,
        (i < N)%nat ->
        (forall y : layer, In y (lays label g) -> nth i (lin y) [] = []) ->
        nth i (r_v num label res) [] = repeat (zero A) K).
Proof. exact factorize_isolated_rows_zero. Qed.
Print Assumptions C03_isolated_rows_zero.

Theorem C03_nonnegative : forall (label : Type) (leqb : label -> label -> bool) (wt : Type) (countf : wt -> nat)
         (ovr : nat -> nat -> R -> R) (directed assort from_init : bool) (starts ends : list label)
         (weights : list wt) (r maxit nconv u_rows u_cols : nat) (u0 v0 : matrix R)
         (aff0 stream : list R) (res : result R label),
       factorize R ArithR label leqb wt countf ovr directed assort from_init starts ends weights r
         maxit nconv u_rows u_cols u0 v0 aff0 stream = Ok R label res ->
       Forall (fun x : R => 0 <= x) stream ->
       Forall (fun x : R => 0 <= x) aff0 ->
       Forall (fun x : R => 0 <= x) (r_aff R label res) /\
       (best_index R ArithR (map snd (r_rep R label res)) <> None ->
        (forall i k : nat, 0 <= mget R ArithR (r_u R label res) i k) /\
        Forall (Forall (fun x : R => 0 <= x)) (r_u R label res) /\
        (directed = true ->
         (forall i k : nat, 0 <= mget R ArithR (r_v R label res) i k) /\
         Forall (Forall (fun x : R => 0 <= x)) (r_v R label res))).
Proof. exact factorize_nonneg. Qed.
Print Assumptions C03_nonnegative.

(* no division by, and no logarithm of, a value <= 1e-6 is ever used *)
Theorem C03_guards : forall (dv : R -> R -> R) (lg : R -> R),
       (forall x y : R, epsR < y -> dv x y = x / y) ->
       (forall x : R, epsR < x -> lg x = Rpower.ln x) ->
       (forall x : R, Rltb epsR x = true -> 0 < x) /\
       (forall (N K L : nat) (d : bool) (G : graph) (s : matrix R * matrix R * list (matrix R)),
        sweep_gen R (ArithR' dv lg) N K L d G s = sweep_gen R ArithR N K L d G s) /\
       (forall (N K L : nat) (d : bool) (G : graph) (s : matrix R * matrix R * list (list R)),
        sweep_ass R (ArithR' dv lg) N K L d G s = sweep_ass R ArithR N K L d G s) /\
       (forall (N K L : nat) (out : nat -> nat -> list nat) (u v : matrix R)
          (w : nat -> nat -> nat -> R),
        lik_gen R (ArithR' dv lg) N K L out u v w = lik_gen R ArithR N K L out u v w) /\
       (forall (N K L : nat) (out : nat -> nat -> list nat) (u v : matrix R) (wd : nat -> nat -> R),
        lik_ass R (ArithR' dv lg) N K L out u v wd = lik_ass R ArithR N K L out u v wd).
Proof. exact guards_positive. Qed.
Print Assumptions C03_guards.

(* the proviso holds as soon as the first reported likelihood exceeds lowest() *)
Theorem C03_adopted_when_first_likelihood_is_a_number : forall (num : Type) (A : Arith num) (ls : list num),
       ls <> [] -> ltb A (lowest A) (hd (lowest A) ls) = true -> best_index num A ls <> None.
Proof. exact first_above_lowest_adopted. Qed.
Print Assumptions C03_adopted_when_first_likelihood_is_a_number.

(* AT THE LEVEL OF THE EXECUTED ARITHMETIC (Coq primitive binary64 = the doubles of the implementation): from the seeded random start of a realization, *)
(* after ANY number of sweeps on ANY network, no out-membership, in-membership or affinity entry of the general model is negative (nor -0): each is +0, positive, *)
(* +infinity or NaN.  (`never negative` is closed under IEEE +, *, / -- FloatSign.v, Flocq -- and the sweeps only combine entries with +, *, / and select *)
(* between them -- ClosureProofs.v, for any arithmetic.)  Finiteness is NOT proved (overflow). *)
Theorem C03_never_negative_in_binary64_general : forall (lnf : float -> float) (directed : bool) (N K L : nat) (ul vl : list nat) 
         (seed : Z) (m n : nat) (G : graph) (b : bufs float (list (matrix float)) unit) 
         (ic' : unit) (ut vt : matrix float) (wt : list (matrix float)) (s3 : list float),
       strm b = mt_draws seed m ->
       start_of float (ArithF lnf) (list (matrix float)) unit (step_random_gen float (ArithF lnf) K L)
         directed N K ul vl b = (ic', (ut, vt, wt), s3) ->
       let
       '(u', v', w') :=
        iter_sweep float (list (matrix float)) (sweep_gen float (ArithF lnf) N K L directed G) n
          (ut, vt, wt) in
        (forall i k : nat,
         notneg (mget float (ArithF lnf) u' i k) /\ (mget float (ArithF lnf) u' i k <? 0)%float = false) /\
        ((directed = false -> forall i k : nat, notneg (mget float (ArithF lnf) (tv b) i k)) ->
         forall i k : nat,
         notneg (mget float (ArithF lnf) v' i k) /\ (mget float (ArithF lnf) v' i k <? 0)%float = false) /\
        (forall k q a : nat,
         notneg (tget float (ArithF lnf) w' k q a) /\
         (tget float (ArithF lnf) w' k q a <? 0)%float = false).
Proof. exact float_trajectory_never_negative_general. Qed.
Print Assumptions C03_never_negative_in_binary64_general.

(* the same for the assortative model *)
Theorem C03_never_negative_in_binary64_assortative : forall (lnf : float -> float) (directed : bool) (N K L : nat) (ul vl : list nat) 
         (seed : Z) (m n : nat) (G : graph) (b : bufs float (list (list float)) unit) 
         (ic' : unit) (ut vt : matrix float) (wt : list (list float)) (s3 : list float),
       strm b = mt_draws seed m ->
       start_of float (ArithF lnf) (list (list float)) unit (step_random_ass float (ArithF lnf) K L)
         directed N K ul vl b = (ic', (ut, vt, wt), s3) ->
       let
       '(u', v', w') :=
        iter_sweep float (list (list float)) (sweep_ass float (ArithF lnf) N K L directed G) n
          (ut, vt, wt) in
        (forall i k : nat,
         notneg (mget float (ArithF lnf) u' i k) /\ (mget float (ArithF lnf) u' i k <? 0)%float = false) /\
        ((directed = false -> forall i k : nat, notneg (mget float (ArithF lnf) (tv b) i k)) ->
         forall i k : nat,
         notneg (mget float (ArithF lnf) v' i k) /\ (mget float (ArithF lnf) v' i k <? 0)%float = false) /\
        (forall k a : nat,
         notneg (dget float (ArithF lnf) w' k a) /\ (dget float (ArithF lnf) w' k a <? 0)%float = false).
Proof. exact float_trajectory_never_negative_assortative. Qed.
Print Assumptions C03_never_negative_in_binary64_assortative.

(* and from a user-supplied initial affinity whose entries are not negative (start = value + 0.1 x draw) *)
Theorem C03_never_negative_in_binary64_general_from_file : forall (lnf : float -> float) (directed : bool) (N K L : nat) (ul vl : list nat) 
         (seed : Z) (m n : nat) (G : graph)
         (b : bufs float (list (matrix float)) (option (list (matrix float))))
         (ic' : option (list (matrix float))) (ut vt : matrix float) (wt : list (matrix float))
         (s3 : list float),
       strm b = mt_draws seed m ->
       (forall k q a : nat,
        notneg (tget float (ArithF lnf) match ic b with
                                        | Some c => c
                                        | None => cw b
                                        end k q a)) ->
       start_of float (ArithF lnf) (list (matrix float)) (option (list (matrix float)))
         (step_from_gen float (ArithF lnf) K L) directed N K ul vl b = (ic', (ut, vt, wt), s3) ->
       let
       '(u', v', w') :=
        iter_sweep float (list (matrix float)) (sweep_gen float (ArithF lnf) N K L directed G) n
          (ut, vt, wt) in
        (forall i k : nat,
         notneg (mget float (ArithF lnf) u' i k) /\ (mget float (ArithF lnf) u' i k <? 0)%float = false) /\
        ((directed = false -> forall i k : nat, notneg (mget float (ArithF lnf) (tv b) i k)) ->
         forall i k : nat,
         notneg (mget float (ArithF lnf) v' i k) /\ (mget float (ArithF lnf) v' i k <? 0)%float = false) /\
        (forall k q a : nat,
         notneg (tget float (ArithF lnf) w' k q a) /\
         (tget float (ArithF lnf) w' k q a <? 0)%float = false).
Proof. exact float_trajectory_never_negative_general_from_file. Qed.
Print Assumptions C03_never_negative_in_binary64_general_from_file.

(* assortative, user-supplied *)
Theorem C03_never_negative_in_binary64_assortative_from_file : forall (lnf : float -> float) (directed : bool) (N K L : nat) (ul vl : list nat) 
         (seed : Z) (m n : nat) (G : graph)
         (b : bufs float (list (list float)) (option (list (list float))))
         (ic' : option (list (list float))) (ut vt : matrix float) (wt : list (list float))
         (s3 : list float),
       strm b = mt_draws seed m ->
       (forall k a : nat,
        notneg (dget float (ArithF lnf) match ic b with
                                        | Some c => c
                                        | None => cw b
                                        end k a)) ->
       start_of float (ArithF lnf) (list (list float)) (option (list (list float)))
         (step_from_ass float (ArithF lnf) K L) directed N K ul vl b = (ic', (ut, vt, wt), s3) ->
       let
       '(u', v', w') :=
        iter_sweep float (list (list float)) (sweep_ass float (ArithF lnf) N K L directed G) n
          (ut, vt, wt) in
        (forall i k : nat,
         notneg (mget float (ArithF lnf) u' i k) /\ (mget float (ArithF lnf) u' i k <? 0)%float = false) /\
        ((directed = false -> forall i k : nat, notneg (mget float (ArithF lnf) (tv b) i k)) ->
         forall i k : nat,
         notneg (mget float (ArithF lnf) v' i k) /\ (mget float (ArithF lnf) v' i k <? 0)%float = false) /\
        (forall k a : nat,
         notneg (dget float (ArithF lnf) w' k a) /\ (dget float (ArithF lnf) w' k a <? 0)%float = false).
Proof. exact float_trajectory_never_negative_assortative_from_file. Qed.
Print Assumptions C03_never_negative_in_binary64_assortative_from_file.

(* the generic fact behind it: for ANY arithmetic and ANY predicate that holds of zero and is closed under +, *, /, one sweep preserves `every entry satisfies it` *)
Theorem C03_sweeps_preserve_any_closed_predicate : forall (num : Type) (A : Arith num) (P : num -> Prop),
       P (zero A) ->
       (forall x y : num, P x -> P y -> P (add A x y)) ->
       (forall x y : num, P x -> P y -> P (mul A x y)) ->
       (forall x y : num, P x -> P y -> P (div A x y)) ->
       forall (N K L : nat) (directed : bool) (G : graph) (u v : matrix num) (w : list (matrix num)),
       Pm num A P u ->
       Pm num A P v -> Pt num A P w -> Pst_gen num A P (sweep_gen num A N K L directed G (u, v, w)).
Proof. exact sweep_gen_P. Qed.
Print Assumptions C03_sweeps_preserve_any_closed_predicate.

