From Coq Require Import Reals List Lra Lia.
Import ListNotations.
Local Open Scope R_scope.

Definition sumR {A} (f : A -> R) (l : list A) : R := fold_right (fun a s => f a + s) 0 l.

Lemma sumR_ext {A} (f g : A -> R) l : (forall a, In a l -> f a = g a) -> sumR f l = sumR g l.
Proof. induction l as [|a l IH]; simpl; intros H; [reflexivity|]. rewrite H, IH; auto. Qed.
Lemma sumR_le {A} (f g : A -> R) l : (forall a, In a l -> f a <= g a) -> sumR f l <= sumR g l.
Proof. induction l as [|a l IH]; simpl; intros H; [lra|]. specialize (H a (or_introl eq_refl)) as Ha. assert (sumR f l <= sumR g l) by (apply IH; auto). lra. Qed.
Lemma sumR_plus {A} (f g : A -> R) l : sumR (fun a => f a + g a) l = sumR f l + sumR g l.
Proof. induction l as [|a l IH]; simpl; [lra|]. rewrite IH; lra. Qed.
Lemma sumR_scal {A} (f : A -> R) c l : sumR (fun a => c * f a) l = c * sumR f l.
Proof. induction l as [|a l IH]; simpl; [lra|]. rewrite IH; lra. Qed.

Lemma ln_le_minus_1 x : 0 < x -> ln x <= x - 1.
Proof. intros Hx. pose proof (exp_ineq1_le (ln x)) as H. rewrite exp_ln in H by assumption. lra. Qed.

(* tangent bound *)
Lemma ln_tangent y y0 : 0 < y -> 0 < y0 -> ln y <= ln y0 + y / y0 - 1.
Proof.
  intros Hy Hy0. assert (H : 0 < y / y0) by (apply Rdiv_lt_0_compat; assumption).
  pose proof (ln_le_minus_1 _ H) as H1. unfold Rdiv in H1 at 1. rewrite ln_mult in H1; try assumption.
  2:{ apply Rinv_0_lt_compat; assumption. }
  rewrite ln_Rinv in H1 by assumption. lra.
Qed.

Lemma jensen_ln {A} (p y : A -> R) (l : list A) :
  (forall a, In a l -> 0 <= p a) ->
  (forall a, In a l -> 0 < p a -> 0 < y a) ->
  sumR p l = 1 ->
  0 < sumR (fun a => p a * y a) l ->
  sumR (fun a => p a * ln (y a)) l <= ln (sumR (fun a => p a * y a) l).
Proof.
  intros Hp Hy Hs Hpos. set (y0 := sumR (fun a => p a * y a) l) in *.
  assert (H : sumR (fun a => p a * ln (y a)) l <= sumR (fun a => p a * (ln y0 - 1) + (p a * y a) * / y0) l).
  { apply sumR_le. intros a Ha. destruct (Rle_lt_or_eq_dec _ _ (Hp a Ha)) as [Hlt|Heq].
    - pose proof (ln_tangent (y a) y0 (Hy a Ha Hlt) Hpos) as Ht. unfold Rdiv in Ht.
      replace (p a * (ln y0 - 1) + p a * y a * / y0) with (p a * (ln y0 + y a * / y0 - 1)) by ring.
      apply Rmult_le_compat_l; lra.
    - rewrite <- Heq. lra. }
  rewrite sumR_plus in H.
  replace (sumR (fun a => p a * (ln y0 - 1)) l) with ((ln y0 - 1) * sumR p l) in H.
  2:{ rewrite <- sumR_scal. apply sumR_ext. intros; ring. }
  replace (sumR (fun a => p a * y a * / y0) l) with (/ y0 * y0) in H.
  2:{ unfold y0 at 2. rewrite <- sumR_scal. apply sumR_ext. intros; ring. }
  rewrite Hs in H. rewrite Rinv_l in H by lra. lra.
Qed.
Print Assumptions jensen_ln.
