(* Properties_C07.v -- C07: determinism and purity -- results depend only on the declared inputs.
   The model's `factorize` is a Gallina function: repeating a call gives the same value by construction.
   What has content is that its SIGNATURE is faithful: the prior contents u0, v0 of the output containers are
   arguments (the C++ can see them) and the theorems below show the result does not depend on them.
   Only statements; every proof is `exact <lemma>` (proofs live in the files imported below). *)
From Coq Require Import Arith List Bool ZArith Floats.
Import ListNotations.
From MT Require Import Arith SweepModel GraphModel InitModel CtrlModel MainModel RunProofs MainProofs FactorizeProofs Mt19937 SeededModel SeedProofs.

(* prior contents of the membership containers do not influence report, affinity, labels, memberships -- *)
(* provided the first reported likelihood is above lowest() (finite, not NaN: see C03); the container for *)
(* the labels is not even an argument of the model (it is cleared and refilled) *)
Theorem C07_prior_independent : forall (num : Type) (A : Arith num) (label : Type) (leqb : label -> label -> bool) 
         (wt : Type) (countf : wt -> nat) (ovr : nat -> nat -> num -> num)
         (directed assort from_init : bool) (starts ends : list label) (weights : list wt)
         (r maxit nconv u_rows u_cols : nat) (aff0 stream : list num) (u0 v0 u0' v0' : matrix num)
         (res res' : result num label),
       factorize num A label leqb wt countf ovr directed assort from_init starts ends weights r maxit
         nconv u_rows u_cols u0 v0 aff0 stream = Ok num label res ->
       factorize num A label leqb wt countf ovr directed assort from_init starts ends weights r maxit
         nconv u_rows u_cols u0' v0' aff0 stream = Ok num label res' ->
       ltb A (lowest A) (hd (lowest A) (map snd (r_rep num label res))) = true ->
       r_rep num label res = r_rep num label res' /\
       r_aff num label res = r_aff num label res' /\
       r_labels num label res = r_labels num label res' /\
       r_u num label res = r_u num label res' /\
       (directed = true -> r_v num label res = r_v num label res').
Proof. exact factorize_prior_independent_first. Qed.
Print Assumptions C07_prior_independent.

(* without that proviso: everything but the memberships is independent; the memberships are independent as soon as *)
(* some realization is adopted *)
Theorem C07_prior_independent_general : forall (num : Type) (A : Arith num) (label : Type) (leqb : label -> label -> bool) 
         (wt : Type) (countf : wt -> nat) (ovr : nat -> nat -> num -> num)
         (directed assort from_init : bool) (starts ends : list label) (weights : list wt)
         (r maxit nconv u_rows u_cols : nat) (aff0 stream : list num) (u0 v0 u0' v0' : matrix num)
         (res res' : result num label),
       factorize num A label leqb wt countf ovr directed assort from_init starts ends weights r maxit
         nconv u_rows u_cols u0 v0 aff0 stream = Ok num label res ->
       factorize num A label leqb wt countf ovr directed assort from_init starts ends weights r maxit
         nconv u_rows u_cols u0' v0' aff0 stream = Ok num label res' ->
       r_rep num label res = r_rep num label res' /\
       r_aff num label res = r_aff num label res' /\
       r_labels num label res = r_labels num label res' /\
       (best_index num A (map snd (r_rep num label res)) <> None ->
        r_u num label res = r_u num label res' /\
        (directed = true -> r_v num label res = r_v num label res')).
Proof. exact factorize_prior_independent. Qed.
Print Assumptions C07_prior_independent_general.

(* the complement, stated so that the proviso is visibly necessary: when NO realization is adopted (every likelihood *)
(* -inf / NaN / lowest) the caller's matrices come back unchanged *)
Theorem C07_nothing_adopted : forall (num : Type) (A : Arith num) (label : Type) (leqb : label -> label -> bool) 
         (wt : Type) (countf : wt -> nat) (ovr : nat -> nat -> num -> num)
         (directed assort from_init : bool) (starts ends : list label) (weights : list wt)
         (r maxit nconv u_rows u_cols : nat) (aff0 stream : list num) (u0 v0 : matrix num)
         (res : result num label),
       factorize num A label leqb wt countf ovr directed assort from_init starts ends weights r maxit
         nconv u_rows u_cols u0 v0 aff0 stream = Ok num label res ->
       best_index num A (map snd (r_rep num label res)) = None ->
       r_u num label res = u0 /\ r_v num label res = v0.
Proof. exact factorize_nothing_adopted. Qed.
Print Assumptions C07_nothing_adopted.

(* whether the call is rejected, and why, does not depend on prior contents *)
Theorem C07_errors_prior_independent : forall (num : Type) (A : Arith num) (label : Type) (leqb : label -> label -> bool) 
         (wt : Type) (countf : wt -> nat) (ovr : nat -> nat -> num -> num)
         (directed assort from_init : bool) (starts ends : list label) (weights : list wt)
         (r maxit nconv u_rows u_cols : nat) (aff0 stream : list num) (u0 v0 u0' v0' : matrix num)
         (c : nat),
       factorize num A label leqb wt countf ovr directed assort from_init starts ends weights r maxit
         nconv u_rows u_cols u0 v0 aff0 stream = Error num label c <->
       factorize num A label leqb wt countf ovr directed assort from_init starts ends weights r maxit
         nconv u_rows u_cols u0' v0' aff0 stream = Error num label c.
Proof. exact factorize_error_prior_independent. Qed.
Print Assumptions C07_errors_prior_independent.

(* of the random stream only the first draws_needed values are read (any continuation of the stream gives the same result) ... *)
Theorem C07_only_the_seed_matters : forall (num : Type) (A : Arith num) (label : Type) (leqb : label -> label -> bool) 
         (wt : Type) (countf : wt -> nat) (ovr : nat -> nat -> num -> num)
         (directed assort from_init : bool) (starts ends : list label) (weights : list wt)
         (r maxit nconv u_rows u_cols : nat) (u0 v0 : matrix num) (aff0 s t : list num),
       draws_needed label leqb wt countf directed assort from_init starts ends weights 
         (length aff0) u_rows u_cols r maxit nconv <= length s ->
       factorize num A label leqb wt countf ovr directed assort from_init starts ends weights r maxit
         nconv u_rows u_cols u0 v0 aff0 (s ++ t) =
       factorize num A label leqb wt countf ovr directed assort from_init starts ends weights r maxit
         nconv u_rows u_cols u0 v0 aff0 s.
Proof. exact factorize_ignores_stream_tail. Qed.
Print Assumptions C07_only_the_seed_matters.

(* ... so the call is a function of the SEED: factorize_seeded (the model the correspondence runs) is factorize on any long enough prefix of mt19937(seed) *)
Theorem C07_function_of_the_seed : forall (A : Arith float) (label : Type) (leqb : label -> label -> bool) 
         (wt : Type) (countf : wt -> nat) (ovr : nat -> nat -> float -> float)
         (directed assort from_init : bool) (starts ends : list label) (weights : list wt)
         (r maxit nconv u_rows u_cols : nat) (u0 v0 : matrix float) (aff0 : list float) 
         (seed : Z) (n : nat),
       draws_needed label leqb wt countf directed assort from_init starts ends weights 
         (length aff0) u_rows u_cols r maxit nconv <= n ->
       factorize float A label leqb wt countf ovr directed assort from_init starts ends weights r maxit
         nconv u_rows u_cols u0 v0 aff0 (mt_draws seed n) =
       factorize_seeded A label leqb wt countf ovr directed assort from_init starts ends weights r
         maxit nconv u_rows u_cols u0 v0 aff0 seed.
Proof. exact factorize_seeded_stable. Qed.
Print Assumptions C07_function_of_the_seed.

(* non-vacuity / necessity of the proviso: both examples are proved in FactorizeProofs.v *)
Check prior_independence_example.
Check prior_dependence_example.
