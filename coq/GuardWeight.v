(* GuardWeight.v -- comparison operator of the weight threshold of the network constructor (C08) *)
From Coq Require Import List String Bool.
Import ListNotations.
From MT Require Import GenGuards GuardDefs.
Local Open Scope string_scope.

Definition weight_threshold_is_strict_greater : Prop :=
  map (fun r => (g_lhs r, g_op r)) (filter is_weight cxx_guards) = [("weight", ">")].
Lemma weight_threshold_holds : weight_threshold_is_strict_greater.
Proof. reflexivity. Qed.
