(* CliMain.v -- the command line front end END TO END (applications/src/multitensor.cpp: main), as one Gallina function:
     option scan with defaults -> read the adjacency file (byte level, CliModel.parse_adjacency) -> sizes -> optional initial-affinity
     file (token level, CliModel.read_affinity) -> seed -> selection of the library variant -> the library call as a function of
     the seed (SeededModel.factorize_seeded over the modelled mt19937) -> the four result files as token grids.
   What stays outside (Section variables, all supplied by the driver and named in the trusted base): std::stoi, the decimal
   rendering of doubles with precision 6 (operator<<), static_cast<int> of the best likelihood in the header line, the blank/line
   tokenisation of the affinity file, the file system (a partial map name -> bytes), std::time for `--s random`, and the wall-clock
   duration (a wildcard token).  An exception escaping main() (the process aborts) is CliThrow: no file is written, the output
   directory is not created. *)
From Coq Require Import List Arith Bool ZArith NArith Floats.
Import ListNotations.
From MT Require Import Arith SweepModel GraphModel InitModel CtrlModel MainModel Layout CliModel Mt19937 SeededModel.

Definition str := list byte.
Fixpoint str_eqb (a b : str) : bool :=
  match a, b with
  | [], [] => true
  | x :: a', y :: b' => N.eqb x y && str_eqb a' b'
  | _, _ => false
  end.
(* ASCII of a Coq string literal would need String; the few fixed words are given as byte lists *)
Definition s_k : str := [45;45;107]%N.                          (* --k *)
Definition s_a : str := [45;45;97]%N.                           (* --a *)
Definition s_w : str := [45;45;119]%N.                          (* --w *)
Definition s_o : str := [45;45;111]%N.                          (* --o *)
Definition s_r : str := [45;45;114]%N.                          (* --r *)
Definition s_s : str := [45;45;115]%N.                          (* --s *)
Definition s_y : str := [45;45;121]%N.                          (* --y *)
Definition s_maxit : str := [45;45;109;97;120;105;116]%N.       (* --maxit *)
Definition s_undirected : str := [45;45;117;110;100;105;114;101;99;116;101;100]%N.
Definition s_assortative : str := [45;45;97;115;115;111;114;116;97;116;105;118;101]%N.
Definition s_random : str := [114;97;110;100;111;109]%N.        (* random *)
Definition d_adjacency : str := [97;100;106;97;99;101;110;99;121;46;100;97;116]%N.   (* adjacency.dat *)
Definition d_results : str := [114;101;115;117;108;116;115]%N.                        (* results *)
Definition f_info : str := [114;117;110;95;105;110;102;111;46;100;97;116]%N.          (* run_info.dat *)
Definition f_w : str := [119;95;111;117;116;46;100;97;116]%N.                         (* w_out.dat *)
Definition f_u : str := [117;95;111;117;116;46;100;97;116]%N.                         (* u_out.dat *)
Definition f_v : str := [118;95;111;117;116;46;100;97;116]%N.                         (* v_out.dat *)

Inductive cli_result :=
| CliThrow (stage : nat)                                  (* an exception leaves main(): 1 options, 2 adjacency file, 3 affinity file, 4 seed, 5 the library *)
| CliOk (outdir : str) (files : list (str * list (list str))).

Section CliMain.
  Variable A : Arith float.
  Variable stoi : str -> option Z.                         (* std::stoi; None = it throws *)
  Variable fs : str -> option (list byte).                 (* the file system: content of a file that can be opened *)
  Variable now : Z.                                        (* std::time(nullptr) *)
  Variable tokenize : list byte -> list (list str).        (* lines of blank-delimited tokens of the affinity file *)
  Variable is_hash : str -> bool.
  Variable pnum : str -> option float.
  Variable puint : str -> option nat.
  Variable fmt : float -> str.                             (* operator<<(double), precision 6 *)
  Variable fmt_int : float -> str.                         (* operator<<(static_cast<int>(x)) *)
  Variable fmt_nat : nat -> str.
  Variable fmt_N : N -> str.
  Variable fmt_Z : Z -> str.
  Variable word : nat -> str.                              (* the fixed words of the files, by number (driver: a table of literals) *)
  Variable reason_name : reason -> str.

  Definition has (argv : list str) (o : str) : bool := opt_exists str str_eqb argv o.
  Definition val (argv : list str) (o : str) : option str := opt_value str str_eqb argv o.

  (* a size_t option read with std::stoi: absent -> the default; present without a value, not a number or negative -> the process
     does not survive (std::string(nullptr) / std::invalid_argument / an allocation of 2^64 - n elements) *)
  Definition size_opt (argv : list str) (o : str) (default : nat) : option nat :=
    if has argv o then
      match val argv o with
      | Some s => match stoi s with Some z => if (z <? 0)%Z then None else Some (Z.to_nat z) | None => None end
      | None => None
      end
    else Some default.
  Definition str_opt (argv : list str) (o : str) (default : str) : option str :=
    if has argv o then val argv o else Some default.

  Definition header (best : float) (r : nat) : list str := [word 2; word 3; word 4; fmt_int best; word 5 ++ fmt_nat r].
  (* run_info.dat *)
  Definition info_rows (seed : Z) (rep : list (nat * reason * float)) : list (list str) :=
    let best := max_L2 float A (map snd rep) in
    [ [word 2; word 6; word 7; word 8; word 9; fmt_nat (length rep)];
      [word 2; word 10; word 11; word 9; fmt best];
      [word 2; word 12; word 13; word 9; word 0];                       (* duration: wildcard *)
      [word 2; word 14; word 9; fmt_Z seed];
      [word 2; word 15; word 16; word 17; word 18] ] ++
    map (fun p => let '(i, (it, rs, l)) := p in [fmt_nat i; fmt_nat it; reason_name rs; fmt l]) (combine (seq 0 (length rep)) rep).

  Definition cli_main (argv : list str) : cli_result :=
    if negb (has argv s_k) then CliThrow 1 else
    match size_opt argv s_k 0, str_opt argv s_a d_adjacency, str_opt argv s_w [], str_opt argv s_o d_results,
          size_opt argv s_r 1, str_opt argv s_s s_random, size_opt argv s_maxit 500, size_opt argv s_y 10 with
    | Some K, Some adj, Some wfile, Some outdir, Some r, Some seedstr, Some maxit, Some nconv =>
        let directed := negb (has argv s_undirected) in
        let assort := has argv s_assortative in
        match fs adj with
        | None => CliThrow 2
        | Some bytes =>
            let '(starts, ends, weights) := parse_adjacency bytes in
            let nv := get_num_vertices N N.eqb starts ends in
            let L := match starts with [] => 0 | _ => length weights / length starts end in
            let aff_size := if assort then K * L else K * K * L in
            let aff0 := repeat (zero A) aff_size in
            let from_file := negb (match wfile with [] => true | _ => false end) in
            let aff1 :=
              if from_file then
                match fs wfile with
                | None => None
                | Some wb => match read_affinity float str is_hash pnum puint assort (tokenize wb) aff0 K with
                             | AffOk _ w => Some w
                             | AffError _ => None
                             end
                end
              else Some aff0 in
            match aff1 with
            | None => CliThrow 3
            | Some aff =>
                let seed := if str_eqb seedstr s_random then Some now else stoi seedstr in
                match seed with
                | None => CliThrow 4
                | Some sd =>
                    let u0 := zeros float A nv K in
                    let v0 := if directed then zeros float A nv K else [] in
                    match factorize_seeded A N N.eqb N N.to_nat (fun _ _ x => x) directed assort from_file
                                           starts ends weights r maxit nconv nv K u0 v0 aff sd with
                    | Error _ _ _ => CliThrow 5
                    | Ok _ _ res =>
                        let best := max_L2 float A (map snd (r_rep _ _ res)) in
                        let labels := map fmt_N (r_labels _ _ res) in
                        let head := header best (length (r_rep _ _ res)) in
                        CliOk outdir
                          ([ (f_info, info_rows sd (r_rep _ _ res));
                             (f_w, head :: affinity_rows float A str fmt fmt_nat word (r_aff _ _ res) K L);
                             (f_u, head :: membership_rows float A str fmt word labels (r_u _ _ res) nv K) ] ++
                           (if directed then [(f_v, head :: membership_rows float A str fmt word labels (r_v _ _ res) nv K)] else []))
                    end
                end
            end
        end
    | _, _, _, _, _, _, _, _ => CliThrow 1
    end.
End CliMain.
