(* Every draw of the modelled uniform stream lies in [0,1). *)
From Coq Require Import ZArith Reals Floats Lia Lra Psatz.
From Flocq Require Import Core.Core IEEE754.BinarySingleNaN IEEE754.PrimFloat.
From MT Require Import Mt19937.

Local Open Scope R_scope.

Notation fexp := (FLT_exp (3 - emax - prec) prec).
Notation rnd := (round radix2 fexp ZnearestE).

Local Instance Hprec' : FLX.Prec_gt_0 prec := Hprec.
Local Instance Hmax' : Prec_lt_emax prec emax := Hmax.

Lemma B2R_Prim2B : forall x, B2R (Prim2B x) = SF2R radix2 (Prim2SF x).
Proof. intros x. now rewrite <- SF2R_B2SF, B2SF_Prim2B. Qed.

Lemma finite_Prim2B : forall x, is_finite (Prim2B x) = is_finite_SF (Prim2SF x).
Proof. intros x. now rewrite <- is_finite_SF_B2SF, B2SF_Prim2B. Qed.


Lemma gfmt : forall m e : Z, (Z.abs m < 2 ^ 53)%Z -> (-1074 <= e)%Z ->
  generic_format radix2 fexp (F2R (Float radix2 m e)).
Proof.
intros m e Hm He.
apply generic_format_FLT.
exists (Float radix2 m e); simpl; trivial.
Qed.

Lemma rnd_id : forall m e : Z, (Z.abs m < 2 ^ 53)%Z -> (-1074 <= e)%Z ->
  rnd (F2R (Float radix2 m e)) = F2R (Float radix2 m e).
Proof.
intros. apply round_generic; [apply valid_rnd_N | now apply gfmt].
Qed.

Lemma word_correct : forall x : Z, (0 <= x < 4294967296)%Z ->
  B2R (Prim2B (float_of_word x)) = IZR x /\ is_finite (Prim2B (float_of_word x)) = true.
Proof.
intros x Hx.
unfold float_of_word.
rewrite of_int63_equiv.
rewrite Uint63.of_Z_spec.
rewrite Z.mod_small by (change Uint63.wB with 9223372036854775808%Z; lia).
generalize (binary_normalize_correct prec emax Hprec Hmax mode_NE x 0 false).
cbv zeta. simpl round_mode.
rewrite rnd_id by lia.
unfold F2R; simpl Fnum; simpl Fexp; simpl bpow.
rewrite Rmult_1_r.
rewrite Rlt_bool_true.
- intros (H1 & H2 & _). now split.
- rewrite Rabs_pos_eq by (apply IZR_le; lia).
  apply Rlt_trans with (IZR 4294967296). apply IZR_lt; lia.
  change (bpow radix2 emax) with (IZR (2 ^ 1024)). apply IZR_lt. reflexivity.
Qed.


Lemma c32_correct : B2R (Prim2B 0x1p32%float) = IZR (2 ^ 32) /\ is_finite (Prim2B 0x1p32%float) = true.
Proof.
rewrite B2R_Prim2B, finite_Prim2B.
replace (Prim2SF 0x1p32%float) with (S754_finite false 4503599627370496 (-20)) by (vm_compute; reflexivity).
split; [|reflexivity].
unfold SF2R, F2R, cond_Zopp, Fnum, Fexp. simpl bpow.
lra.
Qed.

Lemma c64_correct : B2R (Prim2B 0x1p64%float) = IZR (2 ^ 64) /\ is_finite (Prim2B 0x1p64%float) = true.
Proof.
rewrite B2R_Prim2B, finite_Prim2B.
replace (Prim2SF 0x1p64%float) with (S754_finite false 4503599627370496 12) by (vm_compute; reflexivity).
split; [|reflexivity].
unfold SF2R, F2R, cond_Zopp, Fnum, Fexp. simpl bpow.
rewrite <- mult_IZR. reflexivity.
Qed.

Lemma one_correct : B2R (Prim2B 1%float) = 1 /\ is_finite (Prim2B 1%float) = true.
Proof.
rewrite B2R_Prim2B, finite_Prim2B.
replace (Prim2SF 1%float) with (S754_finite false 4503599627370496 (-52)) by (vm_compute; reflexivity).
split; [|reflexivity].
unfold SF2R, F2R, cond_Zopp, Fnum, Fexp. simpl bpow. lra.
Qed.

Lemma zero_correct : B2R (Prim2B 0%float) = 0 /\ is_finite (Prim2B 0%float) = true.
Proof.
rewrite B2R_Prim2B, finite_Prim2B.
replace (Prim2SF 0%float) with (S754_zero false) by (vm_compute; reflexivity).
split; reflexivity.
Qed.

(* the exact integer   x1 + x2 * 2^32   that the two words encode *)
Definition word_sum (x1 x2 : Z) : Z := (x1 + x2 * 2 ^ 32)%Z.

Lemma rnd_0 : rnd 0 = 0.
Proof. apply round_0. apply valid_rnd_N. Qed.

Lemma rnd_pow64 : rnd (IZR (2 ^ 64)) = IZR (2 ^ 64).
Proof.
replace (IZR (2 ^ 64)) with (F2R (Float radix2 1 64)).
apply rnd_id; simpl; lia.
unfold F2R; simpl. lra.
Qed.

Lemma rnd_1 : rnd 1 = 1.
Proof.
replace 1 with (F2R (Float radix2 1 0)).
apply rnd_id; simpl; lia.
unfold F2R; simpl. lra.
Qed.

Lemma rnd_sum_range : forall x1 x2, (0 <= x1 < 4294967296)%Z -> (0 <= x2 < 4294967296)%Z ->
  0 <= rnd (IZR (word_sum x1 x2)) <= IZR (2 ^ 64).
Proof.
intros x1 x2 H1 H2. unfold word_sum.
split.
- rewrite <- rnd_0. apply round_le; [apply FLT_exp_valid; exact Hprec | apply valid_rnd_N |].
  apply IZR_le. lia.
- rewrite <- rnd_pow64. apply round_le; [apply FLT_exp_valid; exact Hprec | apply valid_rnd_N |].
  apply IZR_le. lia.
Qed.

Section Body.
Variables x1 x2 : Z.
Hypothesis H1 : (0 <= x1 < 4294967296)%Z.
Hypothesis H2 : (0 <= x2 < 4294967296)%Z.

Let prod := PrimFloat.mul (float_of_word x2) 0x1p32%float.
Let sum := PrimFloat.add (float_of_word x1) prod.
Let r := PrimFloat.div sum 0x1p64%float.

Lemma big : bpow radix2 emax = IZR (2 ^ 1024).
Proof. reflexivity. Qed.

Lemma prod_correct : B2R (Prim2B prod) = IZR (x2 * 2 ^ 32) /\ is_finite (Prim2B prod) = true.
Proof.
unfold prod. rewrite mul_equiv.
destruct (word_correct x2 H2) as [Ha Hb].
destruct c32_correct as [Hc Hd].
generalize (Bmult_correct prec emax Hprec Hmax mode_NE (Prim2B (float_of_word x2)) (Prim2B 0x1p32%float)).
rewrite Ha, Hb, Hc, Hd. simpl round_mode.
replace (IZR x2 * IZR (2 ^ 32)) with (F2R (Float radix2 x2 32)) by (unfold F2R; simpl; lra).
rewrite rnd_id by lia.
replace (F2R (Float radix2 x2 32)) with (IZR (x2 * 2 ^ 32)) by (rewrite mult_IZR; unfold F2R; simpl; lra).
rewrite Rlt_bool_true.
- intros (Hx & Hy & _). now split.
- rewrite Rabs_pos_eq by (apply IZR_le; lia).
  rewrite big. apply IZR_lt.
  apply Z.lt_trans with (2 ^ 64)%Z; [lia | reflexivity].
Qed.

Lemma sum_correct : B2R (Prim2B sum) = rnd (IZR (word_sum x1 x2)) /\ is_finite (Prim2B sum) = true.
Proof.
unfold sum. rewrite add_equiv.
destruct (word_correct x1 H1) as [Ha Hb].
destruct prod_correct as [Hc Hd].
generalize (Bplus_correct prec emax Hprec Hmax mode_NE _ _ Hb Hd).
rewrite Ha, Hc. simpl round_mode.
rewrite <- plus_IZR. fold (word_sum x1 x2).
destruct (rnd_sum_range x1 x2 H1 H2) as [Hlo Hhi].
rewrite Rlt_bool_true.
- intros (Hx & Hy & _). now split.
- rewrite Rabs_pos_eq by assumption.
  apply Rle_lt_trans with (1 := Hhi).
  rewrite big. apply IZR_lt. reflexivity.
Qed.

Definition rreal := rnd (rnd (IZR (word_sum x1 x2)) / IZR (2 ^ 64)).

Lemma rreal_range : 0 <= rreal <= 1.
Proof.
unfold rreal.
destruct (rnd_sum_range x1 x2 H1 H2) as [Hlo Hhi].
assert (Hp : 0 < IZR (2 ^ 64)) by (apply IZR_lt; reflexivity).
split.
- rewrite <- rnd_0. apply round_le; [apply FLT_exp_valid; exact Hprec | apply valid_rnd_N |].
  apply Rmult_le_pos; [assumption | left; now apply Rinv_0_lt_compat].
- apply Rle_trans with (rnd 1); [|rewrite rnd_1; apply Rle_refl]. apply round_le; [apply FLT_exp_valid; exact Hprec | apply valid_rnd_N |].
  apply Rmult_le_reg_r with (1 := Hp).
  unfold Rdiv. rewrite Rmult_assoc, Rinv_l by lra. lra.
Qed.

Lemma r_correct : B2R (Prim2B r) = rreal /\ is_finite (Prim2B r) = true.
Proof.
unfold r. rewrite div_equiv.
destruct sum_correct as [Ha Hb].
destruct c64_correct as [Hc Hd].
assert (Hnz : B2R (Prim2B 0x1p64%float) <> 0).
{ rewrite Hc. apply Rgt_not_eq. apply IZR_lt. reflexivity. }
generalize (Bdiv_correct prec emax Hprec Hmax mode_NE (Prim2B sum) _ Hnz).
rewrite Ha, Hb, Hc. simpl round_mode. fold rreal.
destruct rreal_range as [Hlo Hhi].
rewrite Rlt_bool_true.
- intros (Hx & Hy & _). now split.
- rewrite Rabs_pos_eq by assumption.
  apply Rle_lt_trans with (1 := Hhi).
  rewrite big. apply IZR_lt. reflexivity.
Qed.

Lemma canonical_unfold :
  canonical_of x1 x2 = if PrimFloat.leb 1%float r then 0x1.fffffffffffffp-1%float else r.
Proof. reflexivity. Qed.

Lemma leb_1_r : PrimFloat.leb 1%float r = Rle_bool 1 rreal.
Proof.
destruct r_correct as [Ha Hb]. destruct one_correct as [Hc Hd].
rewrite leb_equiv, Bleb_correct by assumption. now rewrite Ha, Hc.
Qed.

Theorem canonical_range_body :
  PrimFloat.leb 0%float (canonical_of x1 x2) = true /\ PrimFloat.ltb (canonical_of x1 x2) 1%float = true.
Proof.
rewrite canonical_unfold, leb_1_r.
destruct r_correct as [Ha Hb]. destruct one_correct as [Hc Hd]. destruct zero_correct as [He Hf].
destruct rreal_range as [Hlo Hhi].
case Rle_bool_spec; intros Hr.
- split; vm_compute; reflexivity.
- split.
  + rewrite leb_equiv, Bleb_correct by assumption. rewrite Ha, He. now apply Rle_bool_true.
  + rewrite ltb_equiv, Bltb_correct by assumption. rewrite Ha, Hc. now apply Rlt_bool_true.
Qed.

End Body.

Theorem canonical_in_unit_interval :
  forall x1 x2 : Z, (0 <= x1 < 4294967296)%Z -> (0 <= x2 < 4294967296)%Z ->
    PrimFloat.leb 0%float (canonical_of x1 x2) = true /\ PrimFloat.ltb (canonical_of x1 x2) 1%float = true.
Proof. exact canonical_range_body. Qed.


(* ---------- exact real value ---------- *)

Lemma rnd_scale_gen : forall x e, 1 <= x -> (-64 <= e)%Z -> rnd (x * bpow radix2 e) = rnd x * bpow radix2 e.
Proof.
intros x e Hx He.
assert (Hm : (1 <= mag radix2 x)%Z).
{ apply mag_ge_bpow. simpl. rewrite Rabs_pos_eq; lra. }
unfold round, F2R, scaled_mantissa, cexp; cbn [Fnum Fexp].
rewrite mag_mult_bpow by lra.
replace (fexp (mag radix2 x + e)) with (fexp (mag radix2 x) + e)%Z
  by (unfold FLT_exp, emax, prec; lia).
rewrite Z.opp_add_distr, !bpow_plus.
replace (x * bpow radix2 e * (bpow radix2 (- fexp (mag radix2 x)) * bpow radix2 (- e)))
  with (x * bpow radix2 (- fexp (mag radix2 x)) * (bpow radix2 e * bpow radix2 (- e))) by ring.
rewrite <- (bpow_plus radix2 e). rewrite Z.add_opp_diag_r. simpl (bpow radix2 0).
rewrite Rmult_1_r. ring.
Qed.

Lemma rnd_scale : forall x, 1 <= x -> rnd (x * bpow radix2 (-64)) = rnd x * bpow radix2 (-64).
Proof. intros x Hx. apply rnd_scale_gen; [exact Hx | lia]. Qed.

Lemma rnd_ge_1 : forall x, 1 <= x -> 1 <= rnd x.
Proof.
intros x Hx. rewrite <- rnd_1.
apply round_le; [apply FLT_exp_valid; exact Hprec | apply valid_rnd_N | exact Hx].
Qed.

Lemma inv_pow64 : / IZR (2 ^ 64) = bpow radix2 (-64).
Proof. reflexivity. Qed.

Lemma rreal_exact : forall x1 x2, (0 <= x1 < 4294967296)%Z -> (0 <= x2 < 4294967296)%Z ->
  rreal x1 x2 = rnd (IZR (word_sum x1 x2) / IZR (2 ^ 64)).
Proof.
intros x1 x2 H1 H2. unfold rreal.
assert (HS : (0 <= word_sum x1 x2)%Z) by (unfold word_sum; lia).
destruct (Z.eq_dec (word_sum x1 x2) 0) as [E|E].
- rewrite E, rnd_0. reflexivity.
- assert (H : 1 <= IZR (word_sum x1 x2)) by (apply IZR_le; lia).
  unfold Rdiv. rewrite inv_pow64.
  rewrite (rnd_scale (rnd _)) by now apply rnd_ge_1.
  rewrite round_generic; [| apply valid_rnd_N | apply generic_format_round; [apply FLT_exp_valid; exact Hprec | apply valid_rnd_N]].
  symmetry. now apply rnd_scale.
Qed.

Lemma top_correct : B2R (Prim2B 0x1.fffffffffffffp-1%float) = 1 - / IZR (2 ^ 53).
Proof.
rewrite B2R_Prim2B.
replace (Prim2SF 0x1.fffffffffffffp-1%float) with (S754_finite false 9007199254740991 (-53)) by (vm_compute; reflexivity).
unfold SF2R, F2R, cond_Zopp, Fnum, Fexp. simpl bpow.
change (Z.pow_pos 2 53) with (2 ^ 53)%Z.
assert (0 < IZR (2 ^ 53)) by (apply IZR_lt; reflexivity).
replace 9007199254740991 with (IZR (2 ^ 53) - 1) by (simpl; lra).
field. lra.
Qed.

Lemma lt_1_le_pred : forall x, generic_format radix2 fexp x -> x < 1 -> x <= 1 - / IZR (2 ^ 53).
Proof.
intros x Fx Hx.
assert (F1 : generic_format radix2 fexp 1).
{ replace 1 with (F2R (Float radix2 1 0)) by (unfold F2R; simpl; lra). apply gfmt; simpl; lia. }
generalize (pred_ge_gt radix2 fexp x 1 Fx F1 Hx).
change 1 with (bpow radix2 0) at 1.
rewrite pred_bpow.
replace (bpow radix2 (fexp 0)) with (/ IZR (2 ^ 53)) by reflexivity.
simpl (bpow radix2 0). trivial.
Qed.

Theorem canonical_exact_value :
  forall x1 x2 : Z, (0 <= x1 < 4294967296)%Z -> (0 <= x2 < 4294967296)%Z ->
    B2R (Prim2B (canonical_of x1 x2)) =
      Rmin (round radix2 (FLT_exp (-1074) 53) ZnearestE (IZR (x1 + x2 * 2 ^ 32) / IZR (2 ^ 64)))
           (1 - / IZR (2 ^ 53))
    /\ is_finite (Prim2B (canonical_of x1 x2)) = true.
Proof.
intros x1 x2 H1 H2.
change (FLT_exp (-1074) 53) with fexp. fold (word_sum x1 x2).
rewrite <- (rreal_exact x1 x2 H1 H2).
rewrite canonical_unfold, (leb_1_r x1 x2 H1 H2).
destruct (r_correct x1 x2 H1 H2) as [Ha Hb].
destruct (rreal_range x1 x2 H1 H2) as [Hlo Hhi].
assert (0 < / IZR (2 ^ 53)) by (apply Rinv_0_lt_compat, IZR_lt; reflexivity).
case Rle_bool_spec; intros Hr.
- split.
  + rewrite top_correct, Rmin_right; lra.
  + rewrite finite_Prim2B. vm_compute. reflexivity.
- split; [|exact Hb].
  rewrite Ha. rewrite Rmin_left; [reflexivity|].
  apply lt_1_le_pred; [|exact Hr].
  unfold rreal. apply generic_format_round; [apply FLT_exp_valid; exact Hprec | apply valid_rnd_N].
Qed.

Check canonical_in_unit_interval.
Print Assumptions canonical_in_unit_interval.
Check canonical_exact_value.
Print Assumptions canonical_exact_value.
