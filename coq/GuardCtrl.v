(* GuardCtrl.v -- comparison operators of the convergence test and the termination tests (C05) *)
From Coq Require Import List String Bool.
Import ListNotations.
From MT Require Import GenGuards GuardDefs.
Local Open Scope string_scope.

Definition convergence_operators_as_documented : Prop :=
  map (fun r => (g_lhs r, g_op r)) (filter is_conv cxx_guards) = [("std::abs(L2_old - L2)/std::abs(L2_old)", "<")] /\
  cxx_converged_op = "==" /\ cxx_maxiter_op = "==".
Lemma convergence_operators_hold : convergence_operators_as_documented.
Proof. repeat split. Qed.
