(* RunProofs.v -- properties of the model of Solver::run (CtrlModel.run): report, prefix property,
   selection of the best realization (C04), Report::max_L2, threading of the draw stream and of the
   initialiser state, independence of the prior contents of the caller's / working buffers (C07).
   Everything is over an ARBITRARY arithmetic, sweep, likelihood and affinity initialiser. *)
From Coq Require Import List Arith Bool Lia.
Import ListNotations.
From MT Require Import Arith SweepModel InitModel CtrlModel.

Arguments cu {_ _ _}. Arguments cv {_ _ _}. Arguments cw {_ _ _}.
Arguments tu {_ _ _}. Arguments tv {_ _ _}. Arguments tw {_ _ _}.
Arguments ic {_ _ _}. Arguments strm {_ _ _}. Arguments rep {_ _ _}.

Section RunProofs.
  Variable num : Type.
  Variable A : Arith num.
  Variable W : Type.
  Notation st := (matrix num * matrix num * W)%type.
  Variable sweepf : st -> st.
  Variable likf : nat -> nat -> st -> num.
  Variable IC : Type.
  Variable initw : IC -> W -> list num -> IC * W * list num.
  Variables (directed : bool) (N K : nat) (ul vl : list nat).
  Variables (maxit nconv : nat).

  Notation bufs := (bufs num W IC).
  Notation start_of := (CtrlModel.start_of num A W IC initw directed N K ul vl).
  Notation one_real :=
    (one_realization num A W sweepf likf IC initw directed N K ul vl maxit nconv).
  Notation run r := (CtrlModel.run num A W sweepf likf IC initw directed N K ul vl r maxit nconv).
  Notation max_L2 := (CtrlModel.max_L2 num A).

  (* components of a state (u, v, w) *)
  Definition fu (s : st) : matrix num := fst (fst s).
  Definition fv (s : st) : matrix num := snd (fst s).
  Definition fw (s : st) : W := snd s.

  (* ------------------------------------------------------------------------------------------ *)
  (* Definitions                                                                                *)
  (* ------------------------------------------------------------------------------------------ *)

  (* element i is adopted iff it is ltb-greater than the max of the elements before it *)
  Definition adopt (ls : list num) (i : nat) : bool :=
    ltb A (max_L2 (firstn i ls)) (nth i ls (lowest A)).

  (* "argmax-first" exactly as the run computes it: scan left to right, remember the last adopted index *)
  Definition best_index (ls : list num) : option nat :=
    fold_left (fun acc i => if adopt ls i then Some i else acc) (seq 0 (length ls)) None.

  (* the realization with index i run from the buffers b (b = the buffers BEFORE realization i) *)
  Definition real_of (b : bufs) (i : nat) : lstate num W * reason :=
    realization num A W sweepf likf maxit i maxit nconv
      {| ls_s := snd (fst (start_of b)); ls_it := 0; ls_coin := 0; ls_L2 := lowest A |}.

  (* final working state (u, v, w) of realization i *)
  Definition final_of (b : bufs) (i : nat) : st := ls_s (fst (real_of b i)).

  (* its report entry (iterations, reason, L2) *)
  Definition entry_of (b : bufs) (i : nat) : nat * reason * num :=
    (ls_it (fst (real_of b i)), snd (real_of b i), ls_L2 (fst (real_of b i))).

  (* the report entries of realizations 0 .. r-1, in order *)
  Definition entries (r : nat) (b0 : bufs) : list (nat * reason * num) :=
    map (fun i => entry_of (run i b0) i) (seq 0 r).

  (* ------------------------------------------------------------------------------------------ *)
  (* one_realization in terms of final_of / entry_of / start_of                                  *)
  (* ------------------------------------------------------------------------------------------ *)

  Lemma one_real_eq b i :
    one_real b i =
    let f := final_of b i in
    let rep' := rep b ++ [entry_of b i] in
    if ltb A (max_L2 (map snd (rep b))) (snd (entry_of b i)) then
      {| cu := fu f; cv := (if directed then fv f else cv b); cw := fw f;
         tu := cu b; tv := (if directed then cv b else fv f); tw := cw b;
         ic := fst (fst (start_of b)); strm := snd (start_of b); rep := rep' |}
    else
      {| cu := cu b; cv := cv b; cw := cw b; tu := fu f; tv := fv f; tw := fw f;
         ic := fst (fst (start_of b)); strm := snd (start_of b); rep := rep' |}.
  Proof.
    unfold one_realization, final_of, entry_of, real_of, fu, fv, fw.
    destruct (start_of b) as [[ic' s0] s3]. cbn [fst snd].
    destruct (realization num A W sweepf likf maxit i maxit nconv
                {| ls_s := s0; ls_it := 0; ls_coin := 0; ls_L2 := lowest A |}) as [c rs].
    cbn [fst snd].
    destruct (ls_s c) as [[ut vt] wt]. cbn [fst snd]. reflexivity.
  Qed.

  Lemma run_S r b0 : run (S r) b0 = one_real (run r b0) r.
  Proof. unfold CtrlModel.run. rewrite seq_S, fold_left_app. reflexivity. Qed.

  Lemma rep_one_real b i : rep (one_real b i) = rep b ++ [entry_of b i].
  Proof. rewrite one_real_eq. cbv zeta. destruct (ltb A _ _); reflexivity. Qed.

  (* ------------------------------------------------------------------------------------------ *)
  (* R5: the draw stream and the initialiser state are threaded (the sweeps draw nothing)       *)
  (* ------------------------------------------------------------------------------------------ *)

  Theorem run_stream b i : strm (one_real b i) = snd (start_of b).
  Proof. rewrite one_real_eq. cbv zeta. destruct (ltb A _ _); reflexivity. Qed.

  Theorem run_ic b i : ic (one_real b i) = fst (fst (start_of b)).
  Proof. rewrite one_real_eq. cbv zeta. destruct (ltb A _ _); reflexivity. Qed.

  (* the same, at the level of run *)
  Corollary run_stream_S r b0 : strm (run (S r) b0) = snd (start_of (run r b0)).
  Proof. rewrite run_S. apply run_stream. Qed.
  Corollary run_ic_S r b0 : ic (run (S r) b0) = fst (fst (start_of (run r b0))).
  Proof. rewrite run_S. apply run_ic. Qed.

  (* ------------------------------------------------------------------------------------------ *)
  (* R1: the report                                                                             *)
  (* ------------------------------------------------------------------------------------------ *)

  Lemma entries_S r b0 : entries (S r) b0 = entries r b0 ++ [entry_of (run r b0) r].
  Proof. unfold entries. rewrite seq_S, map_app. reflexivity. Qed.

  Lemma entries_length r b0 : length (entries r b0) = r.
  Proof. unfold entries. rewrite map_length, seq_length. reflexivity. Qed.

  Lemma run_rep r b0 : rep (run r b0) = rep b0 ++ entries r b0.
  Proof.
    induction r as [|r IH].
    - cbn. rewrite app_nil_r. reflexivity.
    - rewrite run_S, rep_one_real, IH, entries_S, app_assoc. reflexivity.
  Qed.

  Theorem run_report r b0 :
    rep (run r b0) = rep b0 ++ entries r b0 /\
    length (rep (run r b0)) = length (rep b0) + r /\
    (forall i, i < r ->
       nth_error (rep (run r b0)) (length (rep b0) + i) =
       Some (let c := fst (real_of (run i b0) i) in (ls_it c, snd (real_of (run i b0) i), ls_L2 c))).
  Proof.
    split; [apply run_rep|]. split.
    - rewrite run_rep, app_length, entries_length. reflexivity.
    - intros i Hi. rewrite run_rep, nth_error_app2 by lia.
      replace (length (rep b0) + i - length (rep b0)) with i by lia.
      unfold entries.
      apply (map_nth_error (fun i => entry_of (run i b0) i)).
      rewrite (nth_error_nth' _ 0) by (rewrite seq_length; exact Hi).
      rewrite seq_nth by exact Hi. reflexivity.
  Qed.

  (* ------------------------------------------------------------------------------------------ *)
  (* R2: prefix property (C04)                                                                  *)
  (* ------------------------------------------------------------------------------------------ *)

  Theorem run_prefix r r' b0 : r' <= r ->
    run r b0 = fold_left one_real (seq r' (r - r')) (run r' b0) /\
    firstn (length (rep b0) + r') (rep (run r b0)) = rep (run r' b0).
  Proof.
    intros Hle. split.
    - unfold CtrlModel.run. rewrite <- fold_left_app.
      replace (seq 0 r' ++ seq r' (r - r')) with (seq 0 r); [reflexivity|].
      replace r with (r' + (r - r')) at 1 by lia. rewrite seq_app. reflexivity.
    - rewrite !run_rep. rewrite firstn_app_2. f_equal.
      unfold entries. replace r with (r' + (r - r')) by lia.
      rewrite seq_app, map_app.
      rewrite <- (Nat.add_0_r r') at 1.
      replace r' with (length (map (fun i => entry_of (run i b0) i) (seq 0 r'))) at 1
        by (rewrite map_length, seq_length; reflexivity).
      rewrite firstn_app_2. cbn. rewrite app_nil_r. reflexivity.
  Qed.

  (* ------------------------------------------------------------------------------------------ *)
  (* max_L2 and best_index on a list extended at the right                                      *)
  (* ------------------------------------------------------------------------------------------ *)

  Lemma max_L2_snoc ls x :
    max_L2 (ls ++ [x]) =
    match ls with [] => x | _ :: _ => if ltb A (max_L2 ls) x then x else max_L2 ls end.
  Proof.
    destruct ls as [|a l]; [reflexivity|].
    unfold CtrlModel.max_L2. cbn [app]. rewrite fold_left_app. reflexivity.
  Qed.

  Lemma fold_left_ext_in {X Y} (f g : X -> Y -> X) (l : list Y) :
    (forall a y, In y l -> f a y = g a y) -> forall a, fold_left f l a = fold_left g l a.
  Proof.
    induction l as [|y l IH]; intros H a; [reflexivity|].
    cbn. rewrite (H a y (or_introl eq_refl)). apply IH. intros a' y' Hy. apply H. right. exact Hy.
  Qed.

  Lemma adopt_snoc_old ls x i : i < length ls -> adopt (ls ++ [x]) i = adopt ls i.
  Proof.
    intros Hi. unfold adopt. rewrite firstn_app.
    replace (i - length ls) with 0 by lia. cbn [firstn]. rewrite app_nil_r.
    rewrite app_nth1 by exact Hi. reflexivity.
  Qed.

  Lemma adopt_snoc_new ls x : adopt (ls ++ [x]) (length ls) = ltb A (max_L2 ls) x.
  Proof.
    unfold adopt. rewrite firstn_app, firstn_all, Nat.sub_diag. cbn [firstn]. rewrite app_nil_r.
    rewrite nth_middle. reflexivity.
  Qed.

  Lemma best_index_snoc ls x :
    best_index (ls ++ [x]) = if ltb A (max_L2 ls) x then Some (length ls) else best_index ls.
  Proof.
    unfold best_index. rewrite app_length. cbn [length]. rewrite Nat.add_1_r, seq_S, fold_left_app.
    cbn [fold_left Nat.add]. rewrite adopt_snoc_new.
    destruct (ltb A (max_L2 ls) x); [reflexivity|].
    apply fold_left_ext_in. intros a i Hi. apply in_seq in Hi.
    rewrite adopt_snoc_old by lia. reflexivity.
  Qed.

  Lemma best_index_nil : best_index [] = None.
  Proof. reflexivity. Qed.

  Lemma best_index_lt ls i : best_index ls = Some i -> i < length ls.
  Proof.
    revert i. induction ls as [|x ls IH] using rev_ind; intros i H.
    - discriminate H.
    - rewrite best_index_snoc in H. rewrite app_length. cbn [length].
      destruct (ltb A (max_L2 ls) x).
      + injection H as <-. lia.
      + apply IH in H. lia.
  Qed.

  (* ------------------------------------------------------------------------------------------ *)
  (* R3: selection (C04)                                                                        *)
  (* ------------------------------------------------------------------------------------------ *)

  (* in-membership argument is never written in the undirected case *)
  Theorem run_cv_undirected r b0 : directed = false -> cv (run r b0) = cv b0.
  Proof.
    intros Hd. induction r as [|r IH]; [reflexivity|].
    rewrite run_S, one_real_eq. cbv zeta.
    destruct (ltb A _ _); cbn [cv]; [|exact IH].
    etransitivity; [|exact IH]. rewrite Hd. reflexivity.
  Qed.

  Lemma run_select_inv r b0 : rep b0 = [] ->
    match best_index (map snd (rep (run r b0))) with
    | Some i => i < r /\
                cu (run r b0) = fu (final_of (run i b0) i) /\
                cw (run r b0) = fw (final_of (run i b0) i) /\
                (directed = true -> cv (run r b0) = fv (final_of (run i b0) i))
    | None => cu (run r b0) = cu b0 /\ cv (run r b0) = cv b0 /\ cw (run r b0) = cw b0
    end.
  Proof.
    intros H0. induction r as [|r IH].
    - cbn. rewrite H0. cbn. auto.
    - assert (Hlen : length (map snd (rep (run r b0))) = r).
      { rewrite map_length, run_rep, app_length, entries_length, H0. reflexivity. }
      assert (Hb : best_index (map snd (rep (run (S r) b0))) =
                   if ltb A (max_L2 (map snd (rep (run r b0)))) (snd (entry_of (run r b0) r))
                   then Some r else best_index (map snd (rep (run r b0)))).
      { rewrite run_S, rep_one_real, map_app. cbn [map]. rewrite best_index_snoc, Hlen. reflexivity. }
      rewrite Hb. clear Hb.
      destruct (ltb A (max_L2 (map snd (rep (run r b0)))) (snd (entry_of (run r b0) r))) eqn:E.
      + rewrite run_S, one_real_eq. cbv zeta. rewrite E. cbn.
        split; [lia|]. split; [reflexivity|]. split; [reflexivity|].
        intros Hd. rewrite Hd. reflexivity.
      + destruct (best_index (map snd (rep (run r b0)))) as [i|];
          rewrite run_S, one_real_eq; cbv zeta; rewrite E; cbn.
        * destruct IH as (Hi & Hu & Hw & Hv). split; [lia|]. auto.
        * exact IH.
  Qed.

  Theorem run_select r b0 : rep b0 = [] ->
    (forall i, best_index (map snd (rep (run r b0))) = Some i ->
       i < r /\
       cu (run r b0) = fu (final_of (run i b0) i) /\
       cw (run r b0) = fw (final_of (run i b0) i) /\
       (directed = true -> cv (run r b0) = fv (final_of (run i b0) i))) /\
    (best_index (map snd (rep (run r b0))) = None ->
       cu (run r b0) = cu b0 /\ cv (run r b0) = cv b0 /\ cw (run r b0) = cw b0) /\
    (directed = false -> cv (run r b0) = cv b0).
  Proof.
    intros H0. pose proof (run_select_inv r b0 H0) as H.
    split; [|split].
    - intros i Hi. rewrite Hi in H. exact H.
    - intros Hn. rewrite Hn in H. exact H.
    - apply run_cv_undirected.
  Qed.

  (* ------------------------------------------------------------------------------------------ *)
  (* R4: Report::max_L2 and best_index under a strict total order                               *)
  (* ------------------------------------------------------------------------------------------ *)

  (* ltb restricted to the values of ls is a strict total order.  For IEEE doubles this EXCLUDES
     NaN from ls: (NaN < x) = (x < NaN) = false for every x, so the third clause would force
     NaN = x for every x in ls.  (-inf and +inf are fine; +0 and -0 are identified only if `=`
     on num identifies them, so for a bit-level num the list must not contain both zeros.) *)
  Definition strict_total_on (ls : list num) : Prop :=
    (forall x, In x ls -> ltb A x x = false) /\
    (forall x y z, In x ls -> In y ls -> In z ls ->
                   ltb A x y = true -> ltb A y z = true -> ltb A x z = true) /\
    (forall x y, In x ls -> In y ls -> ltb A x y = false -> ltb A y x = false -> x = y).

  Lemma strict_total_on_incl ls ls' : incl ls' ls -> strict_total_on ls -> strict_total_on ls'.
  Proof.
    intros Hi (Hir & Htr & Hto). split; [|split].
    - intros x Hx. apply Hir, Hi, Hx.
    - intros x y z Hx Hy Hz. apply Htr; apply Hi; assumption.
    - intros x y Hx Hy. apply Hto; apply Hi; assumption.
  Qed.

  (* max_L2 is an element and an upper bound (needs only irreflexivity and transitivity) *)
  Lemma max_L2_in_ub ls : strict_total_on ls -> ls <> [] ->
    In (max_L2 ls) ls /\ (forall y, In y ls -> ltb A (max_L2 ls) y = false).
  Proof.
    induction ls as [|x ls IH] using rev_ind; intros Hst Hne; [congruence|].
    rewrite max_L2_snoc. destruct ls as [|a l].
    - cbn [app]. split; [left; reflexivity|].
      intros y [<-|[]]. destruct Hst as (Hir & _). apply Hir. left. reflexivity.
    - set (ls := a :: l) in *.
      assert (Hst' : strict_total_on ls).
      { apply (strict_total_on_incl (ls ++ [x])); [apply incl_appl, incl_refl|exact Hst]. }
      destruct (IH Hst' ltac:(subst ls; discriminate)) as (Hin & Hub).
      destruct Hst as (Hir & Htr & _).
      assert (Hx : In x (ls ++ [x])) by (apply in_or_app; right; left; reflexivity).
      destruct (ltb A (max_L2 ls) x) eqn:E.
      + split; [exact Hx|].
        intros y Hy. apply in_app_or in Hy. destruct Hy as [Hy|[<-|[]]].
        * destruct (ltb A x y) eqn:E2; [|reflexivity].
          rewrite <- (Hub y Hy). symmetry.
          apply (Htr (max_L2 ls) x y); try assumption; apply in_or_app; left; assumption.
        * apply Hir, Hx.
      + split; [apply in_or_app; left; exact Hin|].
        intros y Hy. apply in_app_or in Hy. destruct Hy as [Hy|[<-|[]]]; [apply Hub, Hy|exact E].
  Qed.

  (* the last adopted element is the maximum, and the first to attain it *)
  Lemma best_index_some_spec ls : strict_total_on ls -> forall i, best_index ls = Some i ->
    i < length ls /\
    nth i ls (lowest A) = max_L2 ls /\
    (forall j, j < i -> ltb A (nth j ls (lowest A)) (max_L2 ls) = true).
  Proof.
    induction ls as [|x ls IH] using rev_ind; intros Hst i Hb; [discriminate Hb|].
    assert (Hst' : strict_total_on ls).
    { apply (strict_total_on_incl (ls ++ [x])); [apply incl_appl, incl_refl|exact Hst]. }
    rewrite best_index_snoc in Hb. rewrite app_length. cbn [length].
    destruct (ltb A (max_L2 ls) x) eqn:E.
    - injection Hb as <-. split; [lia|].
      assert (Hmx : max_L2 (ls ++ [x]) = x).
      { rewrite max_L2_snoc. destruct ls; [reflexivity|]. rewrite E. reflexivity. }
      rewrite Hmx. split; [apply nth_middle|].
      intros j Hj. rewrite app_nth1 by exact Hj.
      assert (Hne : ls <> []) by (destruct ls; [cbn in Hj; lia|discriminate]).
      destruct (max_L2_in_ub ls Hst' Hne) as (Hin & Hub).
      assert (Hjin : In (nth j ls (lowest A)) ls) by (apply nth_In; exact Hj).
      specialize (Hub _ Hjin).
      destruct Hst as (Hir & Htr & Hto).
      assert (Hx : In x (ls ++ [x])) by (apply in_or_app; right; left; reflexivity).
      assert (Hin' : In (max_L2 ls) (ls ++ [x])) by (apply in_or_app; left; exact Hin).
      assert (Hjin' : In (nth j ls (lowest A)) (ls ++ [x])) by (apply in_or_app; left; exact Hjin).
      destruct (ltb A (nth j ls (lowest A)) (max_L2 ls)) eqn:E2.
      + apply (Htr _ (max_L2 ls) x); assumption.
      + rewrite (Hto _ _ Hjin' Hin' E2 Hub). exact E.
    - destruct (IH Hst' i Hb) as (Hi & Hn & Hf).
      assert (Hmx : max_L2 (ls ++ [x]) = max_L2 ls).
      { rewrite max_L2_snoc. destruct ls; [cbn in Hi; lia|]. rewrite E. reflexivity. }
      rewrite Hmx. split; [lia|]. split.
      + rewrite app_nth1 by exact Hi. exact Hn.
      + intros j Hj. rewrite app_nth1 by lia. apply Hf, Hj.
  Qed.

  (* nothing adopted on a non-empty list: the first element was not above lowest() and nothing
     later was above the first element.  (No order hypothesis needed.) *)
  Lemma best_index_none_spec ls : ls <> [] -> best_index ls = None ->
    max_L2 ls = hd (lowest A) ls /\ ltb A (lowest A) (hd (lowest A) ls) = false.
  Proof.
    induction ls as [|x ls IH] using rev_ind; intros Hne Hb; [congruence|].
    rewrite best_index_snoc in Hb. destruct (ltb A (max_L2 ls) x) eqn:E; [discriminate Hb|].
    rewrite max_L2_snoc. destruct ls as [|a l].
    - cbn. split; [reflexivity|exact E].
    - rewrite E. cbn [app hd]. apply (IH ltac:(discriminate) Hb).
  Qed.

  Theorem max_L2_spec ls : strict_total_on ls -> ls <> [] ->
    In (max_L2 ls) ls /\
    (forall y, In y ls -> ltb A (max_L2 ls) y = false) /\
    (forall i, best_index ls = Some i ->
       i < length ls /\
       nth i ls (lowest A) = max_L2 ls /\
       (forall j, j < i -> ltb A (nth j ls (lowest A)) (max_L2 ls) = true)) /\
    (best_index ls = None ->
       max_L2 ls = hd (lowest A) ls /\ ltb A (lowest A) (hd (lowest A) ls) = false) /\
    (ltb A (lowest A) (hd (lowest A) ls) = true -> exists i, best_index ls = Some i).
  Proof.
    intros Hst Hne. destruct (max_L2_in_ub ls Hst Hne) as (Hin & Hub).
    split; [exact Hin|]. split; [exact Hub|]. split; [apply best_index_some_spec, Hst|].
    split; [apply best_index_none_spec, Hne|].
    intros Hl. destruct (best_index ls) as [i|] eqn:E; [exists i; reflexivity|].
    destruct (best_index_none_spec ls Hne E) as (_ & Hf). congruence.
  Qed.

  (* ------------------------------------------------------------------------------------------ *)
  (* R6: independence of the prior contents of cu, cv, tu, tw (and tv when directed) (C07)      *)
  (* ------------------------------------------------------------------------------------------ *)

  (* what a realization can see of the buffers.  NOT in the list: cu, cv, tu, tw, and tv when
     directed = true.  (tv when directed = false: the undirected run carries v_temp along
     untouched and the abstract sweepf may read it.) *)
  Definition agree (b b' : bufs) : Prop :=
    cw b = cw b' /\ ic b = ic b' /\ strm b = strm b' /\ rep b = rep b' /\
    (directed = false -> tv b = tv b').

  (* start_of does not depend on cu, cv, tu, tw, rep, nor on tv when directed = true *)
  Lemma start_of_indep b b' :
    cw b = cw b' -> ic b = ic b' -> strm b = strm b' -> (directed = false -> tv b = tv b') ->
    start_of b = start_of b'.
  Proof.
    intros Hw Hi Hs Hv. unfold CtrlModel.start_of. rewrite Hw, Hi, Hs.
    destruct directed; [reflexivity|]. rewrite (Hv eq_refl). reflexivity.
  Qed.

  Lemma start_of_agree b b' : agree b b' -> start_of b = start_of b'.
  Proof. intros (Hw & Hi & Hs & _ & Hv). apply start_of_indep; assumption. Qed.

  Lemma real_of_agree b b' i : agree b b' -> real_of b i = real_of b' i.
  Proof. intros H. unfold real_of. rewrite (start_of_agree b b' H). reflexivity. Qed.

  Lemma final_of_agree b b' i : agree b b' -> final_of b i = final_of b' i.
  Proof. intros H. unfold final_of. rewrite (real_of_agree b b' i H). reflexivity. Qed.

  Lemma entry_of_agree b b' i : agree b b' -> entry_of b i = entry_of b' i.
  Proof. intros H. unfold entry_of. rewrite (real_of_agree b b' i H). reflexivity. Qed.

  Lemma one_real_agree b b' i : agree b b' -> agree (one_real b i) (one_real b' i).
  Proof.
    intros H. rewrite !one_real_eq. cbv zeta.
    rewrite (final_of_agree b b' i H), (entry_of_agree b b' i H), (start_of_agree b b' H).
    destruct H as (Hw & Hi & Hs & Hr & Hv). rewrite Hr.
    destruct (ltb A _ _); unfold agree; cbn.
    - repeat split; try reflexivity; try assumption. intros ->. reflexivity.
    - repeat split; try reflexivity; assumption.
  Qed.

  Lemma run_agree r b0 b0' : agree b0 b0' -> agree (run r b0) (run r b0').
  Proof.
    intros H. induction r as [|r IH]; [exact H|].
    rewrite !run_S. apply one_real_agree, IH.
  Qed.

  (* The hypothesis `tw b0 = tw b0'` of the informal statement is not needed. *)
  Theorem run_prior_independent r b0 b0' :
    cw b0 = cw b0' -> ic b0 = ic b0' -> strm b0 = strm b0' ->
    rep b0 = [] -> rep b0' = [] ->
    (directed = false -> tv b0 = tv b0') ->
    rep (run r b0) = rep (run r b0') /\
    strm (run r b0) = strm (run r b0') /\
    ic (run r b0) = ic (run r b0') /\
    cw (run r b0) = cw (run r b0') /\
    (forall i, best_index (map snd (rep (run r b0))) = Some i ->
       cu (run r b0) = cu (run r b0') /\
       (directed = true -> cv (run r b0) = cv (run r b0'))) /\
    (best_index (map snd (rep (run r b0))) = None ->
       cu (run r b0) = cu b0 /\ cu (run r b0') = cu b0' /\
       cv (run r b0) = cv b0 /\ cv (run r b0') = cv b0').
  Proof.
    intros Hw Hi Hs Hr Hr' Hv.
    assert (Hag : agree b0 b0') by (unfold agree; rewrite Hr, Hr'; auto).
    pose proof (run_agree r b0 b0' Hag) as (Hw1 & Hi1 & Hs1 & Hr1 & _).
    split; [exact Hr1|]. split; [exact Hs1|]. split; [exact Hi1|]. split; [exact Hw1|].
    pose proof (run_select_inv r b0 Hr) as S1. pose proof (run_select_inv r b0' Hr') as S2.
    rewrite <- Hr1 in S2. split.
    - intros i Hb. rewrite Hb in S1, S2.
      destruct S1 as (_ & Hu1 & _ & Hv1). destruct S2 as (_ & Hu2 & _ & Hv2).
      rewrite (final_of_agree _ _ i (run_agree i b0 b0' Hag)) in Hu1, Hv1.
      split; [congruence|]. intros Hd. rewrite (Hv1 Hd), (Hv2 Hd). reflexivity.
    - intros Hb. rewrite Hb in S1, S2.
      destruct S1 as (Hu1 & Hv1 & _). destruct S2 as (Hu2 & Hv2 & _). auto.
  Qed.
End RunProofs.

(* ---- non-vacuity / the None case of best_index, on num = nat with lowest = 0 ---- *)
Definition natA : Arith nat :=
  {| zero := 0; add := Nat.add; sub := Nat.sub; mul := Nat.mul; div := Nat.div; absn := fun x => x;
     ltb := Nat.ltb; eps := 0; eps_lik := 0; noise := 0; lowest := 0; ln := fun x => x;
     of_count := fun x => x |}.
Example best_index_ex1 : best_index nat natA [3; 5; 5; 2; 4] = Some 1.      (* FIRST maximum *)
Proof. vm_compute. reflexivity. Qed.
Example best_index_ex2 : best_index nat natA [3; 5; 2; 7; 7] = Some 3.
Proof. vm_compute. reflexivity. Qed.
(* a non-empty list with NO adopted element: the first value is not above lowest() and no later
   value is above the first.  (C++: L2 = -inf, or NaN, in every realization so far; then the
   caller's u, v, w are left untouched although realizations were run.) *)
Example best_index_ex3 : best_index nat natA [0; 0] = None /\ max_L2 nat natA [0; 0] = 0.
Proof. vm_compute. split; reflexivity. Qed.

Print Assumptions run_report.
Print Assumptions run_prefix.
Print Assumptions run_select.
Print Assumptions max_L2_spec.
Print Assumptions run_stream.
Print Assumptions run_ic.
Print Assumptions run_prior_independent.
