(* CtrlSpec.v -- control skeleton of Solver::loop / the while loop of Solver::run over an abstract
   outcome sequence, its declarative specification (conv_at, Post) and the proof that they agree. *)
From Coq Require Import Arith Bool Lia ZArith List.
Require Import ZifyBool ZifyNat.
Ltac Zify.zify_post_hook ::= Z.div_mod_to_equations.

From MT Require Import Arith SweepModel InitModel CtrlModel.   (* for `reason` *)

(* control skeleton of Solver::loop + the while loop of Solver::run, over an abstract
   outcome sequence: passes j = outcome of the (j+1)-th likelihood evaluation *)
Section Ctrl.
  Variables (maxit nconv : nat) (passes : nat -> bool).

  Definition step_coin (it coin : nat) : nat :=
    if it mod 10 =? 0 then (if passes (it / 10) then S coin else 0) else coin.
  Definition step_reason (it' coin' : nat) : reason :=
    if coin' =? nconv then Converged else if it' =? maxit then MaxIter else NoTerm.

  Fixpoint run_ctrl (fuel it coin : nat) : nat * reason :=
    match fuel with
    | O => (it, NoTerm)                      (* out of fuel: shown unreachable *)
    | S fuel' =>
        let coin' := step_coin it coin in
        let it' := S it in
        match step_reason it' coin' with
        | NoTerm => run_ctrl fuel' it' coin'
        | r => (it', r)
        end
    end.

  (* ---- declarative specification ---- *)
  Fixpoint streak (j : nat) : nat :=            (* consecutive passes ending at evaluation j *)
    match j with
    | O => if passes 0 then 1 else 0
    | S j' => if passes (S j') then S (streak j') else 0
    end.
  (* sweep n is an evaluation sweep (1, 11, 21, ...) at which nconv consecutive passes are complete *)
  Definition conv_at (n : nat) : Prop := n mod 10 = 1 /\ streak (n / 10) = nconv.

  Definition Post (it0 n : nat) (r : reason) : Prop :=
    it0 < n <= maxit /\
    ((r = Converged /\ conv_at n) \/ (r = MaxIter /\ n = maxit /\ ~ conv_at n)) /\
    (forall m, it0 < m < n -> ~ conv_at m /\ m <> maxit).

  Definition Inv (it coin : nat) : Prop :=
    it < maxit /\ coin <> nconv /\ (it = 0 -> coin = 0) /\ (0 < it -> coin = streak ((it - 1) / 10)).

  Hypothesis maxit_pos : 1 <= maxit.
  Hypothesis nconv_pos : 1 <= nconv.

  Lemma step_coin_streak it coin : Inv it coin -> step_coin it coin = streak (it / 10).
  Proof.
    intros [Hlt [Hne [H0 Hpos]]]. unfold step_coin.
    destruct (it mod 10 =? 0) eqn:E.
    - destruct (Nat.eq_dec it 0) as [->|Hnz].
      + rewrite (H0 eq_refl). simpl. reflexivity.
      + assert (Hj : it / 10 = S ((it - 1) / 10)) by lia.
        rewrite Hj. cbn [streak]. rewrite (Hpos ltac:(lia)). reflexivity.
    - rewrite (Hpos ltac:(lia)). f_equal. lia.
  Qed.

  Lemma run_ctrl_spec fuel : forall it coin, Inv it coin -> fuel = maxit - it ->
    let '(n, r) := run_ctrl fuel it coin in Post it n r.
  Proof.
    induction fuel as [|fuel IH]; intros it coin HI Hf.
    - destruct HI as [Hlt _]. lia.
    - pose proof (step_coin_streak it coin HI) as Hc.
      destruct HI as [Hlt [Hne [H0 Hpos]]].
      cbn [run_ctrl]. set (coin' := step_coin it coin) in *. unfold step_reason.
      assert (Hconv : conv_at (S it) <-> (it mod 10 = 0 /\ coin' = nconv)).
      { unfold conv_at. split.
        - intros [Hm Hs]. split; [lia|]. rewrite Hc. replace (it / 10) with (S it / 10) by lia. exact Hs.
        - intros [Hm Hs]. split; [lia|]. replace (S it / 10) with (it / 10) by lia. rewrite <- Hc. exact Hs. }
      assert (Hnoeval : it mod 10 <> 0 -> coin' = coin).
      { intros Hm. unfold coin', step_coin. replace (it mod 10 =? 0) with false by lia. reflexivity. }
      destruct (coin' =? nconv) eqn:Ecn.
      + (* converged *)
        assert (Hm : it mod 10 = 0).
        { destruct (Nat.eq_dec (it mod 10) 0) as [e|ne]; [exact e|]. rewrite (Hnoeval ne) in Ecn. lia. }
        unfold Post. split; [lia|]. split.
        * left. split; [reflexivity|]. apply Hconv. split; [exact Hm|lia].
        * intros m Hm'. lia.
      + assert (Hnc : ~ conv_at (S it)) by (intros Hc'; apply Hconv in Hc'; lia).
        destruct (S it =? maxit) eqn:Emx.
        * unfold Post. split; [lia|]. split.
          -- right. split; [reflexivity|]. split; [lia|exact Hnc].
          -- intros m Hm'. lia.
        * assert (HI' : Inv (S it) coin').
          { unfold Inv. split; [lia|]. split; [lia|]. split; [lia|]. intros _. rewrite Hc. f_equal. lia. }
          specialize (IH (S it) coin' HI' ltac:(lia)).
          destruct (run_ctrl fuel (S it) coin') as [n r]. destruct IH as [Hn [Hr Hbefore]].
          unfold Post. split; [lia|]. split; [exact Hr|].
          intros m Hm'. destruct (Nat.eq_dec m (S it)) as [->|Hne'].
          -- split; [exact Hnc|lia].
          -- apply Hbefore. lia.
  Qed.

  Theorem run_ctrl_stop : let '(n, r) := run_ctrl maxit 0 0 in Post 0 n r.
  Proof. apply run_ctrl_spec; [|lia]. unfold Inv. repeat split; try lia. Qed.
End Ctrl.

(* non-vacuity: nconv = 2, all evaluations pass except the first -> converges at sweep 21 *)
Example ex1 : run_ctrl 100 2 (fun j => negb (j =? 0)) 100 0 0 = (21, Converged).
Proof. vm_compute. reflexivity. Qed.
Example ex2 : run_ctrl 15 2 (fun j => negb (j =? 0)) 15 0 0 = (15, MaxIter).
Proof. vm_compute. reflexivity. Qed.
(* tie: convergence completes exactly at sweep maxit = 21 -> CONVERGED wins *)
Example ex3 : run_ctrl 21 2 (fun j => negb (j =? 0)) 21 0 0 = (21, Converged).
Proof. vm_compute. reflexivity. Qed.
