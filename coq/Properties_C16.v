(* Properties_C16.v -- C16: memory safety -- the part that is logic (index ranges), proved; the rest is exploration under sanitizers.
   PARTIAL by nature.  What a Gallina model can carry: every index the code computes is in range --
   tensor positions, vertex indices stored in the adjacency lists, positions written by the affinity reader (for ALL file contents
   of the token grammar), the shape of the out-membership container.  What it cannot exhibit -- use-after-free / leaks around the
   manual new/delete in update_vertices, boost internals, size_t wrap-around, iostream behaviour on arbitrary bytes, the heap -- is
   covered only by running every correspondence case and the malformed-file streams under ASan + UBSan + LSan with assertions and
   _GLIBCXX_ASSERTIONS enabled (exploration, not proof).
   Only statements; every proof is `exact <lemma>` (proofs live in the files imported below). *)
From Coq Require Import List NArith Bool Arith.
Import ListNotations.
From MT Require Import Arith SweepModel Layout LayoutProofs GraphModel GraphProofs CliModel CliProofs InitModel CtrlModel MainModel MainProofs WellFormed.

(* Tensor::get_index: the assertion `index < size()` cannot fire for in-range (i,j,alpha) *)
Theorem C16_tensor_index_in_range : forall R C T i j a : nat, i < R -> j < C -> a < T -> idx R C T i j a < R * C * T.
Proof. exact idx_in_range. Qed.
Print Assumptions C16_tensor_index_in_range.

(* every vertex index stored in an out-/in-list of the network is below the number of vertices *)
Theorem C16_vertex_indices_in_range : forall (label : Type) (leqb : label -> label -> bool),
       (forall a b : label, leqb a b = true <-> a = b) ->
       forall (directed : bool) (L : nat) (recs : list (label * label * list nat)),
       (forall (y : layer) (i j : nat),
        In y (lays label (build label leqb directed L recs)) ->
        In j (nth i (lout y) []) -> j < length (tbl label (build label leqb directed L recs))) /\
       (forall (y : layer) (i j : nat),
        In y (lays label (build label leqb directed L recs)) ->
        In j (nth i (lin y) []) -> j < length (tbl label (build label leqb directed L recs))) /\
       (directed = false ->
        forall y : layer,
        In y (lays label (build label leqb directed L recs)) ->
        Forall (fun l : list nat => l = []) (lin y) /\ (forall i : nat, nth i (lin y) [] = [])).
Proof. exact build_bounds. Qed.
Print Assumptions C16_vertex_indices_in_range.

(* every layer has an out-/in-list for every vertex *)
Theorem C16_layers_have_all_vertices : forall (label : Type) (leqb : label -> label -> bool),
       (forall a b : label, leqb a b = true <-> a = b) ->
       forall (directed : bool) (L : nat) (recs : list (label * label * list nat)),
       length (lays label (build label leqb directed L recs)) = L /\
       (forall y : layer,
        In y (lays label (build label leqb directed L recs)) ->
        length (lout y) = length (tbl label (build label leqb directed L recs)) /\
        length (lin y) = length (tbl label (build label leqb directed L recs))).
Proof. exact build_shape. Qed.
Print Assumptions C16_layers_have_all_vertices.

(* for every token content of an initial-affinity file: if it is accepted the vector keeps its length (every write was in range) ... *)
Theorem C16_affinity_reader_never_writes_out_of_range : forall (num tokn : Type) (is_hash : tokn -> bool) (pnum : tokn -> option num)
         (puint : tokn -> option nat) (assort : bool) (lines : list (list tokn)) 
         (w : list num) (eK : nat) (w' : list num),
       read_affinity num tokn is_hash pnum puint assort lines w eK = AffOk num w' ->
       length w' = length w.
Proof. exact read_affinity_length. Qed.
Print Assumptions C16_affinity_reader_never_writes_out_of_range.

(* ... and acceptance implies matching columns, layers and valid distinct layer ids *)
Theorem C16_affinity_reader_accepts_only_matching_shapes : forall (num tokn : Type) (is_hash : tokn -> bool) (pnum : tokn -> option num)
         (puint : tokn -> option nat) (assort : bool) (lines : list (list tokn)) 
         (w : list num) (eK : nat) (w' : list num),
       read_affinity num tokn is_hash pnum puint assort lines w eK = AffOk num w' ->
       let dl := data_lines tokn is_hash lines in
       let K := hd 0 (counts num tokn pnum dl) in
       Forall (fun c : nat => c = K) (counts num tokn pnum dl) /\
       K <> 0 /\
       aff_size assort K (length dl) = length w /\
       (eK = 0 \/ eK = K) /\
       (exists ids : list nat,
          Forall2
            (fun (l : list tokn) (a : nat) =>
             exists (t : tokn) (vs : list tokn), l = t :: vs /\ puint t = Some a) dl ids /\
          NoDup ids /\ Forall (fun a : nat => a < length dl) ids).
Proof. exact read_affinity_ok_inv. Qed.
Print Assumptions C16_affinity_reader_accepts_only_matching_shapes.

(* an out-membership container that is not N x K (e.g. K x N of the right size) is rejected: code 8 *)
Theorem C16_membership_shape_checked : forall (label : Type) (leqb : label -> label -> bool) (wt : Type) (assort : bool)
         (starts ends : list label) (weights : list wt) (aff_size u_rows u_cols r maxit nconv : nat),
       (validate label leqb wt assort starts ends weights aff_size u_rows u_cols r maxit nconv =
        Reject 1 <-> length starts < 1) /\
       (validate label leqb wt assort starts ends weights aff_size u_rows u_cols r maxit nconv =
        Reject 2 <-> 1 <= length starts /\ length ends <> length starts) /\
       (validate label leqb wt assort starts ends weights aff_size u_rows u_cols r maxit nconv =
        Reject 3 <->
        1 <= length starts /\ length ends = length starts /\ length weights mod length starts <> 0) /\
       (validate label leqb wt assort starts ends weights aff_size u_rows u_cols r maxit nconv =
        Reject 4 <->
        1 <= length starts /\
        length ends = length starts /\
        length weights mod length starts = 0 /\ length weights / length starts < 1) /\
       (validate label leqb wt assort starts ends weights aff_size u_rows u_cols r maxit nconv =
        Reject 5 <->
        1 <= length starts /\
        length ends = length starts /\
        length weights mod length starts = 0 /\
        1 <= cL label wt starts weights /\ cK label wt assort starts weights aff_size < 2) /\
       (validate label leqb wt assort starts ends weights aff_size u_rows u_cols r maxit nconv =
        Reject 6 <->
        1 <= length starts /\
        length ends = length starts /\
        length weights mod length starts = 0 /\
        1 <= cL label wt starts weights /\
        2 <= cK label wt assort starts weights aff_size /\
        (if assort
         then cK label wt assort starts weights aff_size * cL label wt starts weights
         else
          cK label wt assort starts weights aff_size * cK label wt assort starts weights aff_size *
          cL label wt starts weights) <> aff_size) /\
       (validate label leqb wt assort starts ends weights aff_size u_rows u_cols r maxit nconv =
        Reject 7 <->
        1 <= length starts /\
        length ends = length starts /\
        length weights mod length starts = 0 /\
        1 <= cL label wt starts weights /\
        2 <= cK label wt assort starts weights aff_size /\
        (if assort
         then cK label wt assort starts weights aff_size * cL label wt starts weights
         else
          cK label wt assort starts weights aff_size * cK label wt assort starts weights aff_size *
          cL label wt starts weights) = aff_size /\ cN label leqb starts ends < 2) /\
       (validate label leqb wt assort starts ends weights aff_size u_rows u_cols r maxit nconv =
        Reject 8 <->
        1 <= length starts /\
        length ends = length starts /\
        length weights mod length starts = 0 /\
        1 <= cL label wt starts weights /\
        2 <= cK label wt assort starts weights aff_size /\
        (if assort
         then cK label wt assort starts weights aff_size * cL label wt starts weights
         else
          cK label wt assort starts weights aff_size * cK label wt assort starts weights aff_size *
          cL label wt starts weights) = aff_size /\
        2 <= cN label leqb starts ends /\
        (u_rows, u_cols) <> (cN label leqb starts ends, cK label wt assort starts weights aff_size)) /\
       (validate label leqb wt assort starts ends weights aff_size u_rows u_cols r maxit nconv =
        Reject 9 <->
        1 <= length starts /\
        length ends = length starts /\
        length weights mod length starts = 0 /\
        1 <= cL label wt starts weights /\
        2 <= cK label wt assort starts weights aff_size /\
        (if assort
         then cK label wt assort starts weights aff_size * cL label wt starts weights
         else
          cK label wt assort starts weights aff_size * cK label wt assort starts weights aff_size *
          cL label wt starts weights) = aff_size /\
        2 <= cN label leqb starts ends /\
        (u_rows, u_cols) = (cN label leqb starts ends, cK label wt assort starts weights aff_size) /\
        r < 1) /\
       (validate label leqb wt assort starts ends weights aff_size u_rows u_cols r maxit nconv =
        Reject 10 <->
        1 <= length starts /\
        length ends = length starts /\
        length weights mod length starts = 0 /\
        1 <= cL label wt starts weights /\
        2 <= cK label wt assort starts weights aff_size /\
        (if assort
         then cK label wt assort starts weights aff_size * cL label wt starts weights
         else
          cK label wt assort starts weights aff_size * cK label wt assort starts weights aff_size *
          cL label wt starts weights) = aff_size /\
        2 <= cN label leqb starts ends /\
        (u_rows, u_cols) = (cN label leqb starts ends, cK label wt assort starts weights aff_size) /\
        1 <= r /\ maxit < 1) /\
       (validate label leqb wt assort starts ends weights aff_size u_rows u_cols r maxit nconv =
        Reject 11 <->
        1 <= length starts /\
        length ends = length starts /\
        length weights mod length starts = 0 /\
        1 <= cL label wt starts weights /\
        2 <= cK label wt assort starts weights aff_size /\
        (if assort
         then cK label wt assort starts weights aff_size * cL label wt starts weights
         else
          cK label wt assort starts weights aff_size * cK label wt assort starts weights aff_size *
          cL label wt starts weights) = aff_size /\
        2 <= cN label leqb starts ends /\
        (u_rows, u_cols) = (cN label leqb starts ends, cK label wt assort starts weights aff_size) /\
        1 <= r /\ 1 <= maxit /\ nconv < 1) /\
       (forall c : nat,
        validate label leqb wt assort starts ends weights aff_size u_rows u_cols r maxit nconv =
        Reject c -> 1 <= c <= 11).
Proof. exact validate_reject_code. Qed.
Print Assumptions C16_membership_shape_checked.

(* all states of a realization are N x K matrices (row/column indices of the sweeps stay in range) *)
Theorem C16_states_keep_their_shape : forall (num : Type) (A : Arith num) (N K L : nat) (directed : bool) (G : graph) (n : nat),
       (forall s : matrix num * matrix num * list (matrix num),
        wf_state num A directed N K (gul G) (gvl G) s ->
        wf_state num A directed N K (gul G) (gvl G)
          (CtrlProofs.iter_sweep num (list (matrix num)) (sweep_gen num A N K L directed G) n s)) /\
       (forall s : matrix num * matrix num * list (list num),
        wf_state num A directed N K (gul G) (gvl G) s ->
        wf_state num A directed N K (gul G) (gvl G)
          (CtrlProofs.iter_sweep num (list (list num)) (sweep_ass num A N K L directed G) n s)).
Proof. exact iter_sweep_invariant. Qed.
Print Assumptions C16_states_keep_their_shape.

