(* Properties_C08.v -- C08: the network built is exactly the multigraph the edge list describes.
   Labels are an abstract type with a decidable equality reflecting =; no bound on sizes. *)
From Coq Require Import Arith List Bool ZArith Sorting.Sorted Permutation Floats.
Import ListNotations.
From MT Require Import Arith SweepModel GraphModel GraphProofs GraphMult WeightProofs.
#[local] Arguments lout : clear implicits.
#[local] Arguments lin : clear implicits.

Section C08.
  Variable label : Type.
  Variable leqb : label -> label -> bool.
  Hypothesis leqb_spec : forall a b, leqb a b = true <-> a = b.
  Notation build := (build label leqb).
  Notation record := (label * label * list nat)%type.

  (* each distinct label becomes exactly one vertex, numbered in order of first appearance
     (source_1, target_1, source_2, ...), whatever the weights (all-zero records still create
     their endpoints); label <-> index is a bijection; every layer has the same vertex set *)
  Theorem C08_vertices : forall directed L (recs : list record),
    let g := build directed L recs in
    tbl label g = dedup label leqb [] (flat_map (fun r => [fst (fst r); snd (fst r)]) recs) /\
    NoDup (tbl label g) /\
    (forall l, In l (tbl label g) -> exists i, i < length (tbl label g) /\
        lookup label leqb l (tbl label g) = Some i /\ nth_error (tbl label g) i = Some l) /\
    length (lays label g) = L /\
    (forall y, In y (lays label g) ->
        length (lout y) = length (tbl label g) /\ length (lin y) = length (tbl label g)).
  Proof.
    intros directed L recs g.
    destruct (build_tbl label leqb leqb_spec directed L recs) as [Ht Hn].
    destruct (build_shape label leqb leqb_spec directed L recs) as [HL Hy].
    split; [exact Ht|]. split; [exact Hn|]. split.
    - intros l Hl. exact (proj1 (lookup_bijection label leqb leqb_spec (tbl label g) Hn) l Hl).
    - split; [exact HL|exact Hy].
  Qed.

  (* number of parallel edges i -> j of layer a = sum over matching records of the multiplicity
     (directed: ordered pair; the in-list of j agrees) *)
  Theorem C08_multiplicity_directed : forall (dl : label) L (recs : list record) a i j,
    let g := build true L recs in
    let lab v := nth v (tbl label g) dl in
    a < L -> i < length (tbl label g) -> j < length (tbl label g) ->
    count_occ Nat.eq_dec (nth i (lout (nth a (lays label g) empty_layer)) []) j
      = list_sum (map (fun r : record => if leqb (lab i) (fst (fst r)) && leqb (lab j) (snd (fst r))
                                         then nth a (snd r) 0 else 0) recs) /\
    count_occ Nat.eq_dec (nth j (lin (nth a (lays label g) empty_layer)) []) i
      = list_sum (map (fun r : record => if leqb (lab i) (fst (fst r)) && leqb (lab j) (snd (fst r))
                                         then nth a (snd r) 0 else 0) recs).
  Proof. exact (mult_directed_nth label leqb leqb_spec). Qed.

  (* undirected: unordered pair -- records written in either orientation count; a self-loop is listed twice *)
  Theorem C08_multiplicity_undirected : forall (dl : label) L (recs : list record) a i j,
    let g := build false L recs in
    let lab v := nth v (tbl label g) dl in
    a < L -> i < length (tbl label g) -> j < length (tbl label g) ->
    count_occ Nat.eq_dec (nth i (lout (nth a (lays label g) empty_layer)) []) j
      = list_sum (map (fun r : record =>
          (if leqb (lab i) (fst (fst r)) && leqb (lab j) (snd (fst r)) then nth a (snd r) 0 else 0)
        + (if leqb (lab i) (snd (fst r)) && leqb (lab j) (fst (fst r)) then nth a (snd r) 0 else 0)) recs).
  Proof. exact (mult_undirected_nth label leqb leqb_spec). Qed.

  (* end to end, an integer weight m is m consecutive unit-weight records: the two networks are EQUAL
     (same insertion order), hence every result computed from them *)
  Theorem C08_expand : forall directed L (recs : list record),
    build directed L (expand label recs) = build directed L recs.
  Proof. exact (expand_same_build label leqb leqb_spec). Qed.

  (* the vertex sets treated as sources / targets are exactly those with an outgoing / incoming edge in
     some layer, listed in increasing order; undirected: one shared list (any incident edge) *)
  Theorem C08_lists : forall (g : net label),
    (forall i, In i (u_list label g) <->
       i < length (tbl label g) /\ exists y, In y (lays label g) /\ nth i (lout y) [] <> []) /\
    StronglySorted lt (u_list label g) /\
    (forall i, In i (v_list label true g) <->
       i < length (tbl label g) /\ exists y, In y (lays label g) /\ nth i (lin y) [] <> []) /\
    StronglySorted lt (v_list label true g) /\
    v_list label false g = u_list label g.
  Proof.
    intros g. destruct (u_list_spec label g) as [H1 [H2 _]].
    destruct (v_list_directed_spec label g) as [H3 [H4 _]].
    split; [exact H1|]. split; [exact H2|]. split; [exact H3|]. split; [exact H4|]. reflexivity.
  Qed.

  (* all vertex indices stored in the lists are valid; number of edges; vertex count used by the validation *)
  Theorem C08_bounds : forall directed L (recs : list record),
    (forall y i j, In y (lays label (build directed L recs)) ->
       In j (nth i (lout y) []) -> j < length (tbl label (build directed L recs))) /\
    (forall y i j, In y (lays label (build directed L recs)) ->
       In j (nth i (lin y) []) -> j < length (tbl label (build directed L recs))) /\
    nedges label (build directed L recs) = list_sum (map (fun r : record => list_sum (snd r)) recs) /\
    get_num_vertices label leqb (map (fun r : record => fst (fst r)) recs) (map (fun r : record => snd (fst r)) recs)
      = length (tbl label (build directed L recs)).
  Proof.
    intros directed L recs.
    destruct (build_bounds label leqb leqb_spec directed L recs) as [B1 [B2 _]].
    split; [exact B1|]. split; [exact B2|]. split.
    - exact (nedges_all_counts label leqb directed L recs).
    - exact (get_num_vertices_spec label leqb leqb_spec directed L recs).
  Qed.
End C08.
Print Assumptions C08_vertices.
Print Assumptions C08_multiplicity_directed.
Print Assumptions C08_multiplicity_undirected.
Print Assumptions C08_expand.
Print Assumptions C08_lists.
Print Assumptions C08_bounds.

(* weights -> multiplicities.  Integer weights: w <= 0 (i.e. w <= 1e-6) gives no edge, w > 0 gives w edges. *)
Theorem C08_weight_int : forall w : Z, ((w <= 0)%Z -> count_int w = 0) /\ ((0 < w)%Z -> Z.of_nat (count_int w) = w).
Proof. exact count_int_spec. Qed.
Print Assumptions C08_weight_int.

(* Real weights: a weight <= 1e-6 gives none; otherwise the multiplicity is the weight ROUNDED UP: for the binary64
   value m * 2^e decoded by Prim2SF (m < 2^53 for every finite double), c = count_real w satisfies c - 1 < m * 2^e <= c *)
Theorem C08_weight_real_small : forall w : float, PrimFloat.ltb 0x1.0c6f7a0b5ed8dp-20 w = false -> count_real w = 0.
Proof. exact count_real_small. Qed.
Theorem C08_weight_real_ceiling : forall (w : float) (m : positive) (e : Z),
  Prim2SF w = S754_finite false m e ->
  PrimFloat.ltb 0x1.0c6f7a0b5ed8dp-20 w = true ->
  (Z.pos m < 2 ^ 53)%Z ->
  let c := Z.of_nat (count_real w) in
  ((0 <= e)%Z -> c = (Z.pos m * 2 ^ e)%Z) /\
  ((e < 0)%Z -> ((c - 1) * 2 ^ (- e) < Z.pos m <= c * 2 ^ (- e))%Z).
Proof. exact count_real_ceiling. Qed.
Print Assumptions C08_weight_real_ceiling.

(* (the strictness of `weight > 1e-6` is in count_real (ltb eps w) and pinned behaviourally: K-GRAPH runs real weights at 1e-6 exactly and one ulp beside) *)

Example C08_weight_real :
  (count_real 2.5%float = 3 /\ count_real 1%float = 1 /\ count_real 0%float = 0 /\ count_real 0x1.ad7f29abcaf48p-24%float = 0 /\
  count_real 0x1.0c6f7a0b5ed8dp-20%float = 0 /\ count_real 0x1.0c6f7a0b5ed8ep-20%float = 1 /\
  count_real 0x1.8000000000001p+1%float = 4)%nat.
Proof. vm_compute. repeat split. Qed.
Example C08_ex : let g := build nat Nat.eqb false 1 [(7, 3, [2]); (3, 3, [1]); (9, 9, [0])] in
  tbl nat g = [7; 3; 9] /\ map lout (lays nat g) = [[[1; 1]; [0; 0; 1; 1]; []]] /\ u_list nat g = [0; 1].
Proof. vm_compute. repeat split. Qed.
