"""C03 -- results are well-formed: shape, labels, finite, non-negative, zero rows."""
import math
import os
import gen, vf, oracles, pyspec, cli, files


def degenerate_e2e(rng, cid):
    """inputs aimed at the degenerate corners: K > L, zero affinity layers (user-supplied), vertices with only in-/out-edges,
    all-zero records, L = 1, tiny graphs"""
    variant = (rng.chance(0.5), rng.chance(0.5), rng.chance(0.5))
    types = rng.choice(gen.TYPE_PAIRS)
    e = gen.gen_edges(rng, types[0], types[1], nmax=rng.choice([2, 3, 5, 9]), lmax=rng.choice([1, 1, 3]), recmax=rng.choice([2, 5, 12]))
    if rng.chance(0.12):
        # every record has zero weight in every layer: vertices but no edge at all (all normalisers are exactly 0)
        e = {'L': e['L'], 'recs': [(s, t, [('0.0' if types[1] == 'r' else '0')] * e['L']) for s, t, _ in e['recs']]}
    line, m = gen.gen_e2e(rng, cid, variant=variant, types=types, edges=e, maxit_max=60, r_max=3, K=rng.choice([2, 3, 5]))
    if m['from_init'] and rng.chance(0.65):
        aff = list(m['aff'])
        per = len(aff) // m['L']
        if rng.chance(0.6):
            # zero a whole layer / most entries of the supplied affinity
            a0 = rng.below(m['L'])
            for p in range(per):
                aff[a0 * per + p] = 0.0
        else:
            # one group's affinity huge against the others: its whole membership column is pushed under the 1e-6 cut-off by the first
            # sweep and snapped to zero, so that a later normaliser (column sum x column sum) is EXACTLY zero although the network has edges
            aff = [1.0] * len(aff)
            g = rng.below(m['K'])
            big = rng.choice([1e7, 1e9, 1e12])
            for a in range(m['L']):
                aff[(g + a * m['K']) if m['assort'] else (g + g * m['K'] + a * m['K'] * m['K'])] = big
        recs = m['recs']
        line = gen.e2e_case(cid, m['directed'], m['assort'], True, m['ltype'], m['wtype'], m['r'], m['maxit'], m['nconv'], m['seed'],
                            [s for s, _, _ in recs], [t for _, t, _ in recs], [w for _, _, ws in recs for w in ws], aff, m['N'], m['K'], m['u0'],
                            m['N'] if m['v0'] else 0, m['K'] if m['v0'] else 0, m['v0'], [], [])
        m['aff'] = aff
    return line, m


def run(ctx):
    gen.INTEGRAL[0] = True          # real-typed weights are integer-valued here: how fractional weights are rounded is C08's subject
    ctx.trusted = ['Coq 8.16.1 kernel; structural theorems (labels, shape, zero rows) for every arithmetic: closed under the global context; non-negativity and "every division / logarithm sits under a guard making its argument > 1e-6" over exact reals: standard real-number axioms',
                   'correspondence K-GRAPH, K-INIT, K-UPD, K-LIK, K-E2E vs the extracted float model, bit for bit (a NaN or infinity produced by either side would be compared as such)',
                   'NOT verified: overflow to +-inf in binary64 -- no magnitude bound is proved; finiteness of the implementation\'s outputs is asserted on every case as a test only']
    ctx.prove()
    if not ctx.build():
        return
    # a harness unit that reaches into an interface of the tree (Network / Tensor / reader and writer functions) may not compile against it after a
    # harmless renaming: whole calls through the public entry point, compared bit for bit with the model, are then the tie (DESIGN.md 4.5)
    ctx.fallback_e2e = lambda: [gen.gen_e2e(ctx.rng.fork('fb%d' % k), 950000 + k, maxit_max=25, r_max=2)[0] for k in range(ctx.budget(160, 2000))]
    rng = ctx.rng
    cases, metas = [], {}
    for k in range(ctx.budget(500, 20000)):
        line, m = degenerate_e2e(rng.fork('d%d' % k), k)
        cases.append(line)
        metas[k] = m
    res = ctx.component('K-E2E(status, labels, start states)', cases, keys={'status', 'labels', 'start:u', 'start:v'})
    graphs = [gen.gen_graph_random(rng.fork('g%d' % k), 500000 + k)[0] for k in range(ctx.budget(200, 3000))]
    ctx.component('K-GRAPH(labels)', graphs, keys={'dims', 'labels', 'nv'})
    # ---- the command line front end: adjacency files in which a vertex label appears ONLY, or FIRST, in a record whose weights are all zero (the
    #      record adds no edge, but its labels are vertices: a zero row each, at the position of the first appearance)
    cli_metas = []
    wdc = os.path.join(vf.workdir(), 'c03cli')
    for j in range(ctx.budget(10, 60)):
        sub = rng.fork('zl%d' % j)
        L = sub.rint(1, 3)
        labs = [str(x) for x in sub.shuffle(range(1, 40))[:sub.rint(5, 8)]]
        recs = []
        for _ in range(sub.rint(3, 9)):
            s_, t_ = sub.choice(labs[:4]), sub.choice(labs[:4])
            recs.append((s_, t_, [str(sub.rint(0, 2)) for _ in range(L)]))
        if not any(float(x) > 0 for _, _, ws in recs for x in ws):
            recs[0] = (recs[0][0], recs[0][1], ['1'] * L)
        # all-zero records naming new labels: before everything, in the middle, at the end; one of the labels gets an edge later
        zero = ['0'] * L
        recs.insert(sub.below(len(recs) + 1), (labs[4], sub.choice(labs[:4]), zero))
        if len(labs) > 5:
            recs.insert(0 if sub.chance(0.5) else sub.below(len(recs) + 1), (sub.choice(labs[:4]), labs[5], zero))
            recs.append((labs[5], labs[0], ['1'] + zero[1:]))
        if len(labs) > 6:
            recs.append((labs[6], labs[6], zero))
        _line, m = cli.make_case(sub, 770000 + j, wdc, variant=(j % 2 == 0, (j // 2) % 2 == 0, False), edges={'L': L, 'recs': recs})
        cli_metas.append(m)
    n_cli = 0
    if cli_metas:
        cli.compare_with_model(ctx, ctx.bdir, cli_metas, name='K-CLI(model, labels of all-zero records)', check_created=False)
        for m in cli_metas:
            rc, out = vf.run_cli(ctx.bdir, m['args'], m['dir'])
            if rc != 0:
                continue
            got = files.read_result_files(m['out'])
            want = gen.first_appearance(m['recs'])
            _, ul, vl = gen.model_lists(m['recs'], m['directed'], 'u')
            for name, lst in (('u_out.dat', ul),) + ((('v_out.dat', vl),) if m['directed'] else ()):
                rows = [r for r in got.get(name, []) if r and files.is_number(r[0])]
                n_cli += 1
                bad = None
                if [r[0] for r in rows] != want:
                    bad = '%s lists the labels %s, the distinct labels of the file in order of first appearance are %s' % (name, [r[0] for r in rows], want)
                elif any(len(r) != 1 + m['K'] for r in rows):
                    bad = '%s: a row does not have K entries' % name
                elif any(float(x) != 0.0 for i, r in enumerate(rows) if i not in lst for x in r[1:]):
                    bad = '%s: the row of a vertex without such an edge is not zero' % name
                if bad:
                    ctx.violation('well-formed(command line)', bad, {'args': m['args'], 'adjacency_file': open(os.path.join(m['dir'], [a for a in m['args'] if a.startswith('net_')][0]), 'rb').read().decode('latin-1')})
                    break
    n_eval = n_cli
    keys = set()
    if res:
        for k, m in metas.items():
            tr = res['impl'].get('E %d' % k)
            if not tr:
                continue
            d = oracles.trace_dict(tr)
            if d['status'][0][0] != 'OK':
                continue
            n_eval += 1
            N, K, L = m['N'], m['K'], m['L']
            _, ul, vl = gen.model_lists(m['recs'], m['directed'], m['wtype'])
            keys.add((m['directed'], m['assort'], m['from_init'], len(ul) < N, len(vl) < N, K > L))
            bad = None
            if d['labels'][0] != gen.first_appearance(m['recs']):
                bad = 'labels are not the distinct vertex labels in order of first appearance'
            elif d['u'][0][:2] != [str(N), str(K)]:
                bad = 'out-membership is not N x K'
            elif m['directed'] and d['v'][0][:2] != [str(N), str(K)]:
                bad = 'in-membership is not N x K'
            else:
                u = oracles.floats(d['u'][0][3:])
                v = oracles.floats(d['v'][0][3:]) if m['directed'] else []
                w = oracles.floats(d['aff'][0][2:])
                rep = oracles.parse_rep(tr)
                vals = u + v + w + [x[2] for x in rep]
                if any(x != x or abs(x) == float('inf') for x in vals):
                    bad = 'a membership, affinity or reported likelihood value is not finite'
                elif any(x < 0.0 for x in u + v + w):
                    bad = 'a membership or affinity value is negative'
                elif any(u[i * K + k_] != 0.0 for i in range(N) if i not in ul for k_ in range(K)):
                    bad = 'a vertex without outgoing edge has a non-zero out-membership row'
                elif m['directed'] and any(v[i * K + k_] != 0.0 for i in range(N) if i not in vl for k_ in range(K)):
                    bad = 'a vertex without incoming edge has a non-zero in-membership row'
                elif len(rep) != m['r']:
                    bad = 'report does not list every realization'
            if bad:
                ctx.violation('well-formed', bad, {'case': cases[k]})
    ctx.oracle.update({'evaluations': n_eval, 'distinct_nontrivial': len(keys),
                       'rule': 'whole implementation runs from zero-initialised outputs on degenerate inputs (K > L, L = 1, zero affinity layers, vertices with only in-/out-edges, all-zero records, 2-vertex graphs, up to 60 sweeps, 3 realizations), all 8 variants and 3 type pairs: label order against an independent dedup, shapes, isfinite, >= 0, zero rows. distinct = (variant, sink vertex?, source vertex?, K > L)'})
    ctx.samples = [{'case': cases[0][:300]}]
