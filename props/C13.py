"""C13 -- command line = library: every documented option takes effect, the files serialise the result."""
import os
import gen, vf, files, oracles, cli


def run(ctx):
    gen.INTEGRAL[0] = True          # real-typed weights are integer-valued here: how fractional weights are rounded is C08's subject
    ctx.trusted = ['Coq 8.16.1 kernel; all theorems closed under the global context',
                   'translators T3 (option block, selection expression, switch table, call arguments, writers of multitensor.cpp; template defaults and formal parameters of main.hpp) and T4 (writer index expressions)',
                   'correspondence K-PARSE: read_adjacency_data run in process on generated file BYTES vs the extracted byte-level model; K-WRITE: the real Multitensor binary (sanitized build of the working tree) vs the library (harness E2E) and K-E2E vs the model',
                   'modelled, not verified: iostream extraction for characters outside the grammar, operator<<(double) (printf %.6g in the check), the file system']
    ctx.prove()
    if not ctx.build():
        return
    # a harness unit that reaches into an interface of the tree (Network / Tensor / reader and writer functions) may not compile against it after a
    # harmless renaming: whole calls through the public entry point, compared bit for bit with the model, are then the tie (DESIGN.md 4.5)
    ctx.fallback_e2e = lambda: [gen.gen_e2e(ctx.rng.fork('fb%d' % k), 950000 + k, maxit_max=25, r_max=2)[0] for k in range(ctx.budget(160, 2000))]
    rng = ctx.rng
    # ---- K-PARSE
    pcases = []
    pinfo = {}
    for k in range(ctx.budget(600, 20000)):
        sub = rng.fork('p%d' % k)
        e = cli.int_recs(sub, nmax=sub.choice([3, 8, 30]), lmax=4, recmax=sub.choice([3, 12, 40]))
        recs = e['recs']
        if sub.chance(0.1):
            recs = [(str(sub.below(1 << 64)), str(sub.below(1 << 63)), ws) for _, _, ws in recs]     # huge labels
        data, style = files.render_adjacency(sub, recs)
        pcases.append('PARSE %d %s' % (k, files.hexbytes(data)))
        pinfo[k] = (recs, style)
    res = ctx.component('K-PARSE', pcases)
    n_eval = 0
    keys = set()
    styles = {}
    if res:
        for k, (recs, style) in pinfo.items():
            tr = res['impl'].get('P %d' % k)
            if not tr:
                continue
            n_eval += 1
            styles[style] = styles.get(style, 0) + 1
            keys.add(('parse', style, len(recs) > 5))
            d = oracles.trace_dict(tr)
            want_s = [str(int(s)) for s, _, _ in recs]
            want_e = [str(int(t)) for _, t, _ in recs]
            want_w = [str(int(w)) for _, _, ws in recs for w in ws]
            if 'ERR' in d or d.get('starts', [[]])[0] != want_s or d.get('ends', [[]])[0] != want_e or d.get('weights', [[]])[0] != want_w:
                ctx.violation('parse', 'read_adjacency_data does not return the records of a well-formed file (layout %s)' % style,
                              {'case': pcases[k], 'file': bytes.fromhex(pcases[k].split()[2]).decode('latin-1'), 'expected_records': recs[:20]})
    # ---- K-WRITE(unit): the two templated writers called in process on random values vs the model's token grids
    ucases = []
    for k in range(ctx.budget(150, 4000)):
        sub = rng.fork('wu%d' % k)
        def val():
            return sub.choice([0.0, sub.unit(), sub.unit() * 1e-5, 123456.789 * sub.unit(), 1e-7, 1.5, 2.0, 0.000123456789, 9999999.0, 1e21 * sub.unit()])
        if k % 2:
            N, K = sub.rint(1, 6), sub.rint(1, 5)
            labs = gen.make_labels(sub, N, 'u')
            ucases.append('WMEM %d %d %d %s %s' % (900000 + k, N, K, ' '.join(labs), ' '.join(vf.fhex(val()) for _ in range(N * K))))
        else:
            K, L, assort = sub.rint(1, 5), sub.rint(1, 4), sub.below(2)
            n = K * L if assort else K * K * L
            ucases.append('WAFV %d %d %d %d %s' % (900000 + k, K, L, assort, ' '.join(vf.fhex(val()) for _ in range(n))))
    ctx.component('K-WRITE(unit)', ucases)
    # ---- K-WRITE: the real binary
    wd = vf.workdir()
    metas = []
    lines = []
    cid = 700000
    for variant in gen.VARIANTS:
        for j in range(ctx.budget(3, 40)):
            line, m = cli.make_case(rng.fork('w%d' % cid), cid, wd, variant=variant, defaults=(j == 0))
            lines.append(line)
            metas.append(m)
            cid += 1
    res2 = ctx.component('K-E2E(library result for K-WRITE, implementation only)', lines, model=False)
    stats = {}
    if res2:
        stats = cli.run_and_compare(ctx, ctx.bdir, metas, res2['impl'])
        n_eval += stats['runs']
        for m in metas:
            keys.add(('write', m['directed'], m['assort'], m['from_init']))
    # ---- K-CLI(model): the real binary against the extracted Gallina front end (CliMain.cli_main) on the same argv and file contents;
    #      valid configurations (the ones above) and configurations that must end abnormally
    if res2:
        import copy
        bad_metas = []
        for j, m0 in enumerate(metas[:ctx.budget(10, 60)]):
            m = copy.deepcopy(m0)
            m['cid'] = 760000 + j
            sub = rng.fork('bad%d' % j)
            kind = j % 7
            a = list(m['args'])
            def setopt(o, v):
                if o in a:
                    a[a.index(o) + 1] = v
                else:
                    a.extend([o, v])
            if kind == 0:
                setopt('--r', '0')
            elif kind == 1:
                i = a.index('--k'); del a[i:i + 2]
            elif kind == 2:
                setopt('--k', '1')
            elif kind == 3:
                setopt('--s', 'xyz')
            elif kind == 4:
                setopt('--a', 'no_such_file.txt')
            elif kind == 5:
                open(os.path.join(m['dir'], 'w_bad.dat'), 'wb').write(files.mismatching_affinity(sub, m['K'], m['L'])[0])
                setopt('--w', 'w_bad.dat')
            else:
                setopt('--maxit', '0')
            setopt('--o', 'out_bad_%d' % j)
            m['args'] = a
            m['out'] = os.path.join(m['dir'], 'out_bad_%d' % j)
            bad_metas.append(m)
        stm = cli.compare_with_model(ctx, ctx.bdir, metas + bad_metas, check_created=False)      # what an aborting run leaves behind is C15's subject
        n_eval += stm['cases']
        keys.add(('cli-model', 'abort'))
    ctx.oracle.update({'evaluations': n_eval, 'distinct_nontrivial': len(keys), 'adjacency_layouts': styles, 'binary_runs': stats,
                       'rule': 'adjacency files rendered in every layout of the grammar (blanks/tabs, indentation, trailing blanks, empty/blank-only lines, CRLF, leading zeros, 64-bit labels) parsed by the real reader and compared with the records; the real binary with all 8 flag combinations and --k 2..4, --r, --maxit, --y, --s, --o (new / existing directory, stale files), affinity files in several layouts, compared file by file at 6 significant digits with the library\'s result for the same inputs. distinct = (kind, layout or variant)'})
    ctx.samples = [{'file': bytes.fromhex(pcases[0].split()[2]).decode('latin-1')}, {'args': metas[0]['args']}]
