"""C12 -- vertex labels are opaque."""
import gen, vf, oracles


def relabel_case(rng, line, meta, cid2):
    """same call with injectively relabelled vertices, possibly of another label type"""
    src = (meta['ltype'], meta['wtype'])
    if src == ('u', 'u'):
        dst = rng.choice([('u', 'u'), ('s', 'i')])
    elif src == ('s', 'i'):
        dst = rng.choice([('s', 'i'), ('u', 'u')]) if all(int(w) >= 0 for _, _, ws in meta['recs'] for w in ws) else ('s', 'i')
    else:
        dst = ('i', 'r')
    labels = gen.first_appearance(meta['recs'])
    kind = rng.below(4)
    n = len(labels)
    if dst[0] == 's':
        new = gen.make_labels(rng, n, 's')
    elif kind == 0:
        base = rng.below(1000)
        new = [str(base + 7 * (n - i)) for i in range(n)]               # order-reversing
    elif kind == 1:
        new = [str((i + 1) * 10 ** 9 + rng.below(1000)) for i in range(n)]   # sparse, huge
    elif kind == 2 and dst[0] == 'i':
        new = [str(-(i * i + 1) * 1000003) for i in range(n)]                # negative
    else:
        new = gen.make_labels(rng, n, dst[0])
    mp = dict(zip(labels, new))
    recs2 = [(mp[s], mp[t], ws) for s, t, ws in meta['recs']]
    line2 = gen.e2e_case(cid2, meta['directed'], meta['assort'], meta['from_init'], dst[0], dst[1], meta['r'], meta['maxit'],
                         meta['nconv'], meta['seed'], [s for s, _, _ in recs2], [t for _, t, _ in recs2],
                         [w for _, _, ws in recs2 for w in ws], meta['aff'], meta['N'], meta['K'], meta['u0'],
                         meta['N'] if meta['v0'] else 0, meta['K'] if meta['v0'] else 0, meta['v0'], [], [])
    return line2, mp, dst


def run(ctx):
    gen.INTEGRAL[0] = True          # real-typed weights are integer-valued here: how fractional weights are rounded is C08's subject
    ctx.trusted = ['Coq 8.16.1 kernel; the three theorems are closed under the global context',
                   'correspondence K-GRAPH and K-E2E with label types size_t, long (negative values), std::string',
                   'modelled, not verified: std::map / std::set as association lists -- only label EQUALITY is used by the model; an implementation depending on the ORDER of labels would show up as a correspondence mismatch']
    ctx.prove()
    if not ctx.build():
        return
    rng = ctx.rng
    graphs = [gen.gen_graph_random(rng.fork('g%d' % k), k)[0] for k in range(ctx.budget(300, 6000))]
    ctx.component('K-GRAPH(label table)', graphs, keys={'dims', 'labels', 'nv'})
    cases = []
    pairs = []
    for k in range(ctx.budget(150, 4000)):
        sub = rng.fork('e%d' % k)
        line, meta = gen.gen_e2e(sub, 2 * k, maxit_max=20, r_max=2)
        line2, mp, dst = relabel_case(sub, line, meta, 2 * k + 1)
        cases += [line, line2]
        pairs.append((2 * k, 2 * k + 1, mp, meta, dst))
    res = ctx.component('K-E2E(relabelled pairs, implementation only)', cases, model=False)
    n_eval = 0
    keys = set()
    if res:
        for a, b, mp, meta, dst in pairs:
            ta, tb = res['impl'].get('E %d' % a), res['impl'].get('E %d' % b)
            if not ta or not tb:
                continue
            n_eval += 1
            keys.add((meta['ltype'], dst[0], meta['directed'], meta['assort'], meta['from_init']))
            da, db = oracles.trace_dict(ta), oracles.trace_dict(tb)
            want_labels = [mp[x] for x in da['labels'][0]]
            bad = None
            if db['labels'][0] != want_labels:
                bad = 'rows do not carry the corresponding new labels'
            else:
                for key in ('status', 'u', 'v', 'aff', 'rep'):
                    if da.get(key) != db.get(key):
                        bad = 'numeric results differ after relabelling (%s)' % key
                        break
            if bad:
                ctx.violation('relabel', bad, {'case': cases[2 * pairs.index((a, b, mp, meta, dst))], 'relabelled_case': cases[2 * pairs.index((a, b, mp, meta, dst)) + 1], 'map': mp})
    ctx.oracle.update({'evaluations': n_eval, 'distinct_nontrivial': len(keys),
                       'rule': 'pairs of whole implementation runs (all 8 variants) under an injective relabelling: order-reversing, sparse/huge, negative, strings, across label types (size_t <-> string, long <-> long); bit equality of u, v, affinity, report and mapped labels. distinct = (source type, target type, variant)'})
    ctx.samples = [{'case': cases[0][:300], 'relabelled': cases[1][:300]}]
