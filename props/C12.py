"""C12 -- vertex labels are opaque."""
import os
import gen, vf, oracles, files, cli


def relabel_case(rng, line, meta, cid2):
    """same call with injectively relabelled vertices, possibly of another label type"""
    src = (meta['ltype'], meta['wtype'])
    if src == ('u', 'u'):
        dst = rng.choice([('u', 'u'), ('s', 'i')])
    elif src == ('s', 'i'):
        dst = rng.choice([('s', 'i'), ('u', 'u')]) if all(int(w) >= 0 for _, _, ws in meta['recs'] for w in ws) else ('s', 'i')
    else:
        dst = ('i', 'r')
    labels = gen.first_appearance(meta['recs'])
    kind = rng.below(4)
    n = len(labels)
    if dst[0] == 's':
        new = gen.make_labels(rng, n, 's')
    elif kind == 0:
        base = rng.below(1000)
        new = [str(base + 7 * (n - i)) for i in range(n)]               # order-reversing
    elif kind == 1:
        new = [str((i + 1) * 10 ** 9 + rng.below(1000)) for i in range(n)]   # sparse, huge
    elif kind == 2 and dst[0] == 'i':
        new = [str(-(i * i + 1) * 1000003) for i in range(n)]                # negative
    else:
        new = gen.make_labels(rng, n, dst[0])
    mp = dict(zip(labels, new))
    recs2 = [(mp[s], mp[t], ws) for s, t, ws in meta['recs']]
    line2 = gen.e2e_case(cid2, meta['directed'], meta['assort'], meta['from_init'], dst[0], dst[1], meta['r'], meta['maxit'],
                         meta['nconv'], meta['seed'], [s for s, _, _ in recs2], [t for _, t, _ in recs2],
                         [w for _, _, ws in recs2 for w in ws], meta['aff'], meta['N'], meta['K'], meta['u0'],
                         meta['N'] if meta['v0'] else 0, meta['K'] if meta['v0'] else 0, meta['v0'], [], [])
    return line2, mp, dst


def run(ctx):
    gen.INTEGRAL[0] = True          # real-typed weights are integer-valued here: how fractional weights are rounded is C08's subject
    ctx.trusted = ['Coq 8.16.1 kernel; the three theorems are closed under the global context',
                   'correspondence K-GRAPH and K-E2E with label types size_t, long (negative values), std::string',
                   'modelled, not verified: std::map / std::set as association lists -- only label EQUALITY is used by the model; an implementation depending on the ORDER of labels would show up as a correspondence mismatch']
    ctx.prove()
    if not ctx.build():
        return
    # a harness unit that reaches into an interface of the tree (Network / Tensor / reader and writer functions) may not compile against it after a
    # harmless renaming: whole calls through the public entry point, compared bit for bit with the model, are then the tie (DESIGN.md 4.5)
    ctx.fallback_e2e = lambda: [gen.gen_e2e(ctx.rng.fork('fb%d' % k), 950000 + k, maxit_max=25, r_max=2)[0] for k in range(ctx.budget(160, 2000))]
    rng = ctx.rng
    graphs = [gen.gen_graph_random(rng.fork('g%d' % k), k)[0] for k in range(ctx.budget(300, 6000))]
    ctx.component('K-GRAPH(label table)', graphs, keys={'dims', 'labels', 'nv'})
    cases = []
    pairs = []
    for k in range(ctx.budget(150, 4000)):
        sub = rng.fork('e%d' % k)
        line, meta = gen.gen_e2e(sub, 2 * k, maxit_max=20, r_max=2)
        line2, mp, dst = relabel_case(sub, line, meta, 2 * k + 1)
        cases += [line, line2]
        pairs.append((2 * k, 2 * k + 1, mp, meta, dst))
    res = ctx.component('K-E2E(relabelled pairs, implementation only)', cases, model=False)
    n_eval = 0
    keys = set()
    if res:
        for a, b, mp, meta, dst in pairs:
            ta, tb = res['impl'].get('E %d' % a), res['impl'].get('E %d' % b)
            if not ta or not tb:
                continue
            n_eval += 1
            keys.add((meta['ltype'], dst[0], meta['directed'], meta['assort'], meta['from_init']))
            da, db = oracles.trace_dict(ta), oracles.trace_dict(tb)
            want_labels = [mp[x] for x in da['labels'][0]]
            bad = None
            if db['labels'][0] != want_labels:
                bad = 'rows do not carry the corresponding new labels'
            else:
                for key in ('status', 'u', 'v', 'aff', 'rep'):
                    if da.get(key) != db.get(key):
                        bad = 'numeric results differ after relabelling (%s)' % key
                        break
            if bad:
                ctx.violation('relabel', bad, {'case': cases[2 * pairs.index((a, b, mp, meta, dst))], 'relabelled_case': cases[2 * pairs.index((a, b, mp, meta, dst)) + 1], 'map': mp})
    # ---- the same through the command line front end (labels are read from the adjacency file)
    wd = vf.workdir()
    nb = 0
    for k in range(ctx.budget(8, 150)):
        sub = rng.fork('b%d' % k)
        e = cli.int_recs(sub, nmax=5, lmax=2, recmax=8)
        labels = gen.first_appearance(e['recs'])
        kind = sub.below(4)
        if kind == 0:
            mp = {x: str((1 << 53) + 1 + 2 * i) for i, x in enumerate(labels)}            # above 2^53, odd: not representable as double
        elif kind == 1:
            mp = {x: str(10 ** 18 + 7 * i + 1) for i, x in enumerate(labels)}
        elif kind == 2:
            mp = {x: str((1 << 64) - 1 - i) for i, x in enumerate(labels)}                 # order-reversing, at the top of the range
        else:
            mp = {x: str(1000003 * (len(labels) - i) + 17) for i, x in enumerate(labels)}
        recs2 = [(mp[s_], mp[t_], ws) for s_, t_, ws in e['recs']]
        d = os.path.join(wd, 'rel%d' % k)
        os.makedirs(d)
        open(os.path.join(d, 'a.dat'), 'wb').write(files.render_adjacency(sub, e['recs'], 'plain')[0])
        open(os.path.join(d, 'b.dat'), 'wb').write(files.render_adjacency(sub, recs2, 'plain')[0])
        args = ['--k', str(sub.rint(2, 3)), '--s', str(sub.below(1000)), '--maxit', '12', '--r', '2'] + (['--undirected'] if sub.chance(0.5) else []) + (['--assortative'] if sub.chance(0.5) else [])
        rc1, o1 = vf.run_cli(ctx.bdir, ['--a', 'a.dat', '--o', 'oa'] + args, d)
        rc2, o2 = vf.run_cli(ctx.bdir, ['--a', 'b.dat', '--o', 'ob'] + args, d)
        nb += 1
        n_eval += 1
        keys.add(('cli', kind))
        fa, fb = files.read_result_files(os.path.join(d, 'oa')), files.read_result_files(os.path.join(d, 'ob'))
        bad = None
        if (rc1 == 0) != (rc2 == 0):
            bad = 'one of the two runs fails (exit %s vs %s)' % (rc1, rc2)
        elif rc1 == 0:
            for name in fa:
                ra, rb = fa[name], fb.get(name)
                if rb is None or len(ra) != len(rb):
                    bad = '%s differs in length' % name
                    break
                for x, y in zip(ra, rb):
                    if name in ('u_out.dat', 'v_out.dat') and x and x[0] != '#':
                        if mp.get(x[0]) != y[0] or x[1:] != y[1:]:
                            bad = '%s: row %s became %s' % (name, ' '.join(x), ' '.join(y))
                            break
                    elif name == 'run_info.dat' and x[:2] == ['#', 'Duration']:
                        continue
                    elif x != y:
                        bad = '%s: %s vs %s' % (name, ' '.join(x), ' '.join(y))
                        break
                if bad:
                    break
        if bad:
            ctx.violation('relabel-cli', 'relabelling the vertices of the adjacency file changes the command line\'s results: ' + bad,
                          {'args': args, 'map': mp, 'file': open(os.path.join(d, 'a.dat')).read(), 'relabelled_file': open(os.path.join(d, 'b.dat')).read()})
    ctx.oracle.update({'evaluations': n_eval, 'distinct_nontrivial': len(keys), 'binary_pairs': nb,
                       'rule': 'pairs of whole implementation runs (all 8 variants) under an injective relabelling: order-reversing, sparse/huge, negative, strings, across label types (size_t <-> string, long <-> long); bit equality of u, v, affinity, report and mapped labels. distinct = (source type, target type, variant)'})
    ctx.samples = [{'case': cases[0][:300], 'relabelled': cases[1][:300]}]
