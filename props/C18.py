"""C18 -- tensor storage layout contract."""
import gen, vf


def run(ctx):
    ctx.trusted = ['Coq 8.16.1 kernel (vm_compute only in the non-vacuity Example)',
                   'translators T2 (tensor.hpp get_index, Transpose, Diagonal/SymmetricTensor constructors) and T4 (write_affinity_file index expressions): regex + expression parser in tools/translate.py',
                   'correspondence K-LAYOUT: real accessors (&t(i,j,a) - data()) and write_affinity_file vs the extracted model, exhaustive for R,C,T <= 6 and K <= 6, L <= 4',
                   'modelled, not verified: the Python reshape in multitensor.pyx (extension not built here)']
    ctx.prove()
    if not ctx.build():
        return
    maxdim = 6
    cases = gen.layout_cases(maxdim)
    waff = []
    cid = 100000
    for K in range(1, 7):
        for L in range(1, 5):
            for assort in (0, 1):
                waff.append('WAFF %d %d %d %d' % (cid, K, L, assort))
                cid += 1
    # a tensor that already holds one shape is resized to another (same or different element count): all ordered pairs <= 3 + random <= 6
    rz = []
    rid = 200000
    shapes = [(a, b, c) for a in range(1, 4) for b in range(1, 4) for c in range(1, 4)]
    for s1 in shapes:
        for s2 in shapes:
            rz.append('RESIZE %d %d %d %d %d %d %d' % ((rid,) + s1 + s2))
            rid += 1
    for _ in range(ctx.budget(300, 5000)):
        s1 = tuple(ctx.rng.rint(1, 6) for _ in range(3))
        s2 = ctx.rng.shuffle(list(s1)) if ctx.rng.chance(0.5) else [ctx.rng.rint(1, 6) for _ in range(3)]
        rz.append('RESIZE %d %d %d %d %d %d %d' % ((rid,) + s1 + tuple(s2)))
        rid += 1
    res = ctx.component('K-LAYOUT', cases + waff + rz)
    # ---- oracle on the implementation alone: the documented formula, computed here independently
    n_eval = 0
    nontrivial = 0
    if res:
        for line in cases:
            _, cid_, R, C, T = line.split()
            R, C, T = int(R), int(C), int(T)
            tr = res['impl'].get('L ' + cid_)
            if not tr:
                continue
            d = {t[0]: t[1:] for t in tr}
            want = [str(a * R * C + j * R + i) for a in range(T) for j in range(C) for i in range(R)]
            wantT = [str(a * R * C + i * C + j) for a in range(T) for j in range(C) for i in range(R)]
            n_eval += 1
            if R * C * T > 1:
                nontrivial += 1
            bad = None
            if d.get('idx') != want or d.get('cxx') != want:
                bad = 'flat position of (i,j,a) is not a*R*C + j*R + i'
            elif sorted(map(int, d.get('idx', []))) != list(range(R * C * T)):
                bad = 'positions are not a bijection onto 0..size-1'
            elif d.get('transposed') != wantT or d.get('transposed_const') != wantT or d.get('idx_const') != want:
                bad = 'transposed view does not expose (i,j,a) as (j,i,a)'
            elif d.get('diag') != [str(a * R + i) for a in range(T) for i in range(R)]:
                bad = 'diagonal tensor is not the C=1 layout'
            elif d.get('sym') != [str(a * R * R + q * R + k) for a in range(T) for q in range(R) for k in range(R)]:
                bad = 'symmetric tensor is not the R=C=K layout'
            if bad:
                ctx.violation('layout', bad, {'case': line, 'impl': d})
        for line in waff:
            _, cid_, K, L, assort = line.split()
            K, L, assort = int(K), int(L), int(assort)
            tr = res['impl'].get('W ' + cid_)
            if not tr:
                continue
            n_eval += 1
            nontrivial += 1 if K * L > 1 else 0
            rows = [t[3:] for t in tr]          # tokens after 'line n :'
            want = []
            for a in range(L):
                want.append(['a=', str(a)])
                for k in range(K):
                    want.append([str(k + a * K)] if assort else [str(k + q * K + a * K * K) for q in range(K)])
                want.append([])
            if rows != want:
                ctx.violation('writer', 'write_affinity_file does not emit entry (k,q) of layer a at row k, column q of block a',
                              {'case': line, 'impl_rows': rows, 'expected_rows': want})
    if res:
        for line in rz:
            t = line.split()
            R, C, T = int(t[5]), int(t[6]), int(t[7])
            tr = res['impl'].get('Z ' + t[1])
            if not tr:
                continue
            n_eval += 1
            d = {x[0]: x[1:] for x in tr}
            want = [str(a * R * C + j * R + i) for a in range(T) for j in range(C) for i in range(R)]
            if d.get('dims') != [str(R), str(C), str(T), str(R * C * T)] or d.get('idx') != want or d.get('zeroed') != ['1']:
                ctx.violation('layout-after-resize', 'after resize(%d,%d,%d) of a tensor that held %sx%sx%s the layout is not a*R*C + j*R + i on the new dimensions (or the data is not zeroed)' % (R, C, T, t[2], t[3], t[4]),
                              {'case': line, 'impl': d})
    ctx.oracle.update({'evaluations': n_eval, 'distinct_nontrivial': nontrivial,
                       'rule': 'exhaustive: every dimension triple R,C,T <= %d (all index triples each) and every K <= 6, L <= 4, both tensor kinds for the writer; non-trivial = more than one element' % maxdim})
    ctx.extra['exhaustive'] = True
    ctx.samples = [cases[37], waff[9]]
