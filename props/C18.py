"""C18 -- tensor storage layout contract."""
import gen, vf


def run(ctx):
    ctx.trusted = ['Coq 8.16.1 kernel (vm_compute only in the non-vacuity Example)',
                   'translators T2 (tensor.hpp get_index, Transpose, Diagonal/SymmetricTensor constructors) and T4 (write_affinity_file index expressions): regex + expression parser in tools/translate.py',
                   'correspondence K-LAYOUT: real accessors (&t(i,j,a) - data()) and write_affinity_file vs the extracted model, exhaustive for R,C,T <= 6 and K <= 6, L <= 4',
                   'modelled, not verified: the Python reshape in multitensor.pyx (extension not built here)']
    gen.INTEGRAL[0] = True
    ctx.prove()
    if not ctx.build():
        return
    # a harness unit that reaches into an interface of the tree (Network / Tensor / reader and writer functions) may not compile against it after a
    # harmless renaming: whole calls through the public entry point, compared bit for bit with the model, are then the tie (DESIGN.md 4.5)
    ctx.fallback_e2e = lambda: [gen.gen_e2e(ctx.rng.fork('fb%d' % k), 950000 + k, maxit_max=25, r_max=2)[0] for k in range(ctx.budget(160, 2000))]
    maxdim = 6
    cases = gen.layout_cases(maxdim)
    waff = []
    cid = 100000
    for K in range(1, 7):
        for L in range(1, 5):
            for assort in (0, 1):
                waff.append('WAFF %d %d %d %d' % (cid, K, L, assort))
                cid += 1
    # a tensor that already holds one shape is resized to another (same or different element count): all ordered pairs <= 3 + random <= 6
    rz = []
    rid = 200000
    shapes = [(a, b, c) for a in range(1, 4) for b in range(1, 4) for c in range(1, 4)]
    for s1 in shapes:
        for s2 in shapes:
            rz.append('RESIZE %d %d %d %d %d %d %d' % ((rid,) + s1 + s2))
            rid += 1
    for _ in range(ctx.budget(300, 5000)):
        s1 = tuple(ctx.rng.rint(1, 6) for _ in range(3))
        s2 = ctx.rng.shuffle(list(s1)) if ctx.rng.chance(0.5) else [ctx.rng.rint(1, 6) for _ in range(3)]
        rz.append('RESIZE %d %d %d %d %d %d %d' % ((rid,) + s1 + tuple(s2)))
        rid += 1
    res = ctx.component('K-LAYOUT', cases + waff + rz)
    # the front end's reader of an initial-affinity file fills the SAME flat vector: value of group k in layer a at a*K*K + k*K + k (general),
    # a*K + k (assortative: the C = 1 layout); position-encoded values, shuffled layers
    import files, oracles
    raff, rinfo = [], {}
    rcid = 400000
    for K in range(2, 6):
        for L in range(1, 5):
            for assort in (0, 1):
                sub = ctx.rng.fork('ra%d' % rcid)
                diag = [[float(100 * (a + 1) + k + 1) for k in range(K)] for a in range(L)]
                data, style = files.render_affinity(sub, K, L, diag)
                raff.append('RAFF %d %d %d %d %d %s' % (rcid, assort, K, L, K, files.hexbytes(data)))
                rinfo[rcid] = (K, L, assort, diag)
                rcid += 1
    res_r = ctx.component('K-PARSE(affinity positions)', raff)
    # ---- oracle on the implementation alone: the documented formula, computed here independently
    n_eval = 0
    nontrivial = 0
    if res:
        for line in cases:
            _, cid_, R, C, T = line.split()
            R, C, T = int(R), int(C), int(T)
            tr = res['impl'].get('L ' + cid_)
            if not tr:
                continue
            d = {t[0]: t[1:] for t in tr}
            want = [str(a * R * C + j * R + i) for a in range(T) for j in range(C) for i in range(R)]
            wantT = [str(a * R * C + i * C + j) for a in range(T) for j in range(C) for i in range(R)]
            n_eval += 1
            if R * C * T > 1:
                nontrivial += 1
            bad = None
            if d.get('idx') != want or d.get('cxx') != want:
                bad = 'flat position of (i,j,a) is not a*R*C + j*R + i'
            elif sorted(map(int, d.get('idx', []))) != list(range(R * C * T)):
                bad = 'positions are not a bijection onto 0..size-1'
            elif d.get('transposed') != wantT or d.get('transposed_const') != wantT or d.get('idx_const') != want:
                bad = 'transposed view does not expose (i,j,a) as (j,i,a)'
            elif d.get('diag') != [str(a * R + i) for a in range(T) for i in range(R)]:
                bad = 'diagonal tensor is not the C=1 layout'
            elif d.get('sym') != [str(a * R * R + q * R + k) for a in range(T) for q in range(R) for k in range(R)]:
                bad = 'symmetric tensor is not the R=C=K layout'
            sh = d.get('@shape', [])
            if not bad and sh and (sh[:4] != [str(R), str(C), str(T), str(R * C * T)] or (len(sh) > 4 and sh[4:] != [str(R), str(C), str(T)])):
                bad = 'a %d x %d x %d tensor reports the shape %s (dims(), size(), then the named accessors rows, columns, tubes)' % (R, C, T, sh)
            elif not bad and d.get('@shape_transposed', [str(R), str(C), str(T)]) != [str(R), str(C), str(T)]:
                bad = 'the transposed view of a %d x %d x %d tensor reports the shape %s' % (C, R, T, d.get('@shape_transposed'))
            elif not bad and d.get('@shape_matrix') and (d['@shape_matrix'][:4] != [str(R), str(C), '1', str(R * C)] or (len(d['@shape_matrix']) > 4 and d['@shape_matrix'][4:] != [str(R), str(C), '1'])):
                bad = 'a %d x %d matrix reports the shape %s' % (R, C, d.get('@shape_matrix'))
            if not bad and '@transposed_matrix' in d and d['@transposed_matrix'] != [x for j in range(C) for i in range(R) for x in (str(i * C + j), str(i * C + j))]:
                bad = 'the transposed view of a %d x %d matrix does not expose (i,j) as (j,i) through its two-index accessors' % (C, R)
            if not bad and '@transposed_diag' in d and d['@transposed_diag'] != [x for a in range(T) for i in range(R) for x in (str(a * R + i), str(a * R + i))]:
                bad = 'the transposed view of a diagonal tensor (%d groups, %d layers) does not expose (k, a) as (k, a) through its two-index accessors' % (R, T)
            if not bad and '@shape_from_vector' in d:
                got = ' '.join(d['@shape_from_vector'])
                acc = lambda *x: ' '.join(str(y) for y in x)
                want_short = ' | '.join([acc(R, C, 1, R * C), acc(R, 1, T, R * T), acc(R, R, T, R * R * T)])
                want_long = ' | '.join([acc(R, C, 1, R * C, R, C, 1), acc(R, 1, T, R * T, R, 1, T), acc(R, R, T, R * R * T, R, R, T)])
                if got not in (want_short, want_long):
                    bad = 'containers built from a vector of values (matrix %d x %d; diagonal and symmetric tensor with %d groups, %d layers) report the shapes: %s' % (R, C, R, T, got)
            if bad:
                ctx.violation('layout', bad, {'case': line, 'impl': d})
        for line in waff:
            _, cid_, K, L, assort = line.split()
            K, L, assort = int(K), int(L), int(assort)
            tr = res['impl'].get('W ' + cid_)
            if not tr:
                continue
            n_eval += 1
            nontrivial += 1 if K * L > 1 else 0
            rows = [t[3:] for t in tr]          # tokens after 'line n :'
            want = []
            for a in range(L):              # data rows only: block a = rows a*K .. a*K+K-1 (block headers / blank lines are presentation)
                for k in range(K):
                    want.append([str(k + a * K)] if assort else [str(k + q * K + a * K * K) for q in range(K)])
            if rows != want:
                ctx.violation('writer', 'write_affinity_file does not emit entry (k,q) of layer a at row k, column q of block a',
                              {'case': line, 'impl_rows': rows, 'expected_rows': want})
    if res_r:
        for c, (K, L, assort, diag) in rinfo.items():
            tr = res_r['impl'].get('A %d' % c)
            if not tr or tr[0][0] != 'OK':
                continue
            n_eval += 1
            w = oracles.floats(tr[0][1:])
            for a in range(L):
                for k in range(K):
                    pos = (a * K + k) if assort else (a * K * K + k * K + k)
                    if pos >= len(w) or w[pos] != diag[a][k]:
                        ctx.violation('reader-layout', 'read_affinity_data (K=%d, L=%d, %s): the value of group %d in layer %d is not at flat position %d' % (K, L, 'assortative' if assort else 'general', k, a, pos),
                                      {'case': raff[c - 400000], 'file': bytes.fromhex(raff[c - 400000].split()[6]).decode('latin-1'), 'vector': w})
                        break
                else:
                    continue
                break
    if res:
        for line in rz:
            t = line.split()
            R, C, T = int(t[5]), int(t[6]), int(t[7])
            tr = res['impl'].get('Z ' + t[1])
            if not tr:
                continue
            n_eval += 1
            d = {x[0]: x[1:] for x in tr}
            want = [str(a * R * C + j * R + i) for a in range(T) for j in range(C) for i in range(R)]
            if d.get('dims') != [str(R), str(C), str(T), str(R * C * T)] or d.get('idx') != want or d.get('zeroed') != ['1']:
                ctx.violation('layout-after-resize', 'after resize(%d,%d,%d) of a tensor that held %sx%sx%s the layout is not a*R*C + j*R + i on the new dimensions (or the data is not zeroed)' % (R, C, T, t[2], t[3], t[4]),
                              {'case': line, 'impl': d})
            elif ('@diag_resized' in d and d['@diag_resized'] != [str(R), '1', str(T), str(R * T)]) or ('@diag_resized_from_empty' in d and d['@diag_resized_from_empty'] != [str(R), '1', str(T), str(R * T)]):
                ctx.violation('layout-after-resize', 'a diagonal tensor resized to (%d groups, %d layers) reports the shape %s / %s, not %d x 1 x %d' % (R, T, d.get('@diag_resized'), d.get('@diag_resized_from_empty'), R, T), {'case': line, 'impl': d})
            elif '@sym_resized' in d and d['@sym_resized'] != [str(R), str(R), str(T), str(R * R * T)]:
                ctx.violation('layout-after-resize', 'a symmetric tensor resized to (%d groups, %d layers) reports the shape %s, not %d x %d x %d' % (R, T, d.get('@sym_resized'), R, R, T), {'case': line, 'impl': d})
    # ---- the affinity vector exchanged with callers (main.hpp): IN: a user-supplied NON-symmetric vector must reach the solver at the
    #      documented positions (start state = vector + noise, compared with the model at `start:w`); OUT: the vector handed back is the
    #      adopted realization's tensor in the same flat order (implementation's returned vector vs its own final state at the hook)
    import oracles
    ecases, emetas = [], {}
    START_AFF = {}
    for k in range(ctx.budget(60, 1500)):
        sub = ctx.rng.fork('av%d' % k)
        line, m = gen.gen_e2e(sub, 300000 + k, variant=(sub.chance(0.5), sub.chance(0.3), True), maxit_max=3, r_max=2, K=sub.rint(2, 4), trace=1)
        # an asymmetric start: distinct entries everywhere
        aff = [round(0.05 + 0.9 * sub.unit(), 6) for _ in m['aff']]
        recs = m['recs']
        line = gen.e2e_case(300000 + k, m['directed'], m['assort'], True, m['ltype'], m['wtype'], m['r'], m['maxit'], m['nconv'], m['seed'],
                            [s_ for s_, _, _ in recs], [t_ for _, t_, _ in recs], [w_ for _, _, ws in recs for w_ in ws], aff, m['N'], m['K'], m['u0'],
                            m['N'] if m['v0'] else 0, m['K'] if m['v0'] else 0, m['v0'], [], [], trace=1)
        ecases.append(line)
        emetas[300000 + k] = m
        START_AFF[300000 + k] = aff
    res_e = ctx.component('K-E2E(affinity vector in: start state)', ecases, keys={'status', 'start:w'})
    if res_e:
        for c, m in emetas.items():
            tr = res_e['impl'].get('E %d' % c)
            if not tr:
                continue
            d = oracles.trace_dict(tr)
            if d['status'][0][0] != 'OK':
                continue
            # IN: entry p of every realization's start is the caller's entry p plus noise in [0, 0.1)
            for t in tr:
                if t[0] == 'start' and t[2] == 'w':
                    got = oracles.floats(t[4:])
                    src = START_AFF[c]
                    if len(got) != len(src) or any(not (0.0 <= g - a_ < 0.1000001) for g, a_ in zip(got, src)):
                        p_ = next((i_ for i_, (g, a_) in enumerate(zip(got, src)) if not (0.0 <= g - a_ < 0.1000001)), -1)
                        ctx.violation('vector-in', 'start affinity of realization %s: flat entry %d is %r, the caller\'s vector has %r there (expected that value + noise in [0,0.1))' % (
                            t[1], p_, got[p_] if 0 <= p_ < len(got) else None, src[p_] if 0 <= p_ < len(src) else None), {'case': ecases[c - 300000]})
                        break
            rep = oracles.parse_rep(tr)
            fin = {}
            for t in tr:
                if t[0] == '@final' and t[3] == 'w':
                    fin[int(t[1])] = t[5:]
            Ls = [x[2] for x in rep]
            if any(l != l for l in Ls) or not fin:
                continue
            best = oracles.first_argmax(Ls)
            n_eval += 1
            if Ls[best] > oracles.LOWEST and d['aff'][0][2:] != fin.get(best):
                ctx.violation('vector-out', 'the affinity vector handed back is not the adopted realization\'s tensor in flat order a*K*K + q*K + k', {'case': ecases[c - 300000]})
    ctx.oracle.update({'evaluations': n_eval, 'distinct_nontrivial': nontrivial,
                       'rule': 'exhaustive: every dimension triple R,C,T <= %d (all index triples each) and every K <= 6, L <= 4, both tensor kinds for the writer; non-trivial = more than one element' % maxdim})
    ctx.extra['exhaustive'] = True
    ctx.samples = [cases[37], waff[9]]
