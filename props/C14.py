"""C14 -- initial-affinity file semantics."""
import os
import gen, vf, files, oracles, cli


def run(ctx):
    gen.INTEGRAL[0] = True          # real-typed weights are integer-valued here: how fractional weights are rounded is C08's subject
    ctx.trusted = ['Coq 8.16.1 kernel; all theorems closed under the global context',
                   'correspondence K-PARSE(affinity): read_affinity_data run in process on generated file bytes (sentinel-filled vector) vs the extracted token-level model; K-INIT: start states at the realization_start hook; K-WRITE for whole --w runs (C13)',
                   'modelled, not verified: iostream extraction of doubles (the model receives pre-parsed numeric tokens), the Python loader (numpy.loadtxt + numpy.diag + ravel: source text only, extension not built)']
    ctx.prove()
    if not ctx.build():
        return
    # a harness unit that reaches into an interface of the tree (Network / Tensor / reader and writer functions) may not compile against it after a
    # harmless renaming: whole calls through the public entry point, compared bit for bit with the model, are then the tie (DESIGN.md 4.5)
    ctx.fallback_e2e = lambda: [gen.gen_e2e(ctx.rng.fork('fb%d' % k), 950000 + k, maxit_max=25, r_max=2)[0] for k in range(ctx.budget(160, 2000))]
    rng = ctx.rng
    cases, info = [], {}
    cid = 0
    for K in range(1, 6):
        for L in range(1, 5):
            for assort in (0, 1):
                for rep in range(ctx.budget(4, 60) if K > 1 else ctx.budget(1, 10)):
                    sub = rng.fork('a%d' % cid)
                    diag = [[sub.choice([0.0, round(sub.unit(), 5), round(9 * sub.unit(), 3), 1e-7, 2.0]) for _ in range(K)] for _ in range(L)]
                    data, style = files.render_affinity(sub, K, L, diag)
                    expk = sub.choice([0, K])
                    cases.append('RAFF %d %d %d %d %d %s' % (cid, assort, K, L, expk, files.hexbytes(data)))
                    info[cid] = ('ok', K, L, assort, diag, style)
                    cid += 1
                for rep in range(ctx.budget(3, 40)):
                    sub = rng.fork('m%d' % cid)
                    data, kind = files.mismatching_affinity(sub, K, L)
                    cases.append('RAFF %d %d %d %d %d %s' % (cid, assort, K, L, sub.choice([0, K]), files.hexbytes(data)))
                    info[cid] = ('mismatch', K, L, assort, kind, None)
                    cid += 1
                # right shape for other dimensions, wrong K expected
                sub = rng.fork('k%d' % cid)
                diag = [[0.5] * K for _ in range(L)]
                data, style = files.render_affinity(sub, K, L, diag, 'plain')
                cases.append('RAFF %d %d %d %d %d %s' % (cid, assort, K, L, K + 1, files.hexbytes(data)))
                info[cid] = ('mismatch', K, L, assort, 'expected K differs', None)
                cid += 1
    res = ctx.component('K-PARSE(affinity)', cases)
    n_eval = 0
    keys = set()
    if res:
        for c, (kind, K, L, assort, x, style) in info.items():
            tr = res['impl'].get('A %d' % c)
            if not tr:
                continue
            n_eval += 1
            keys.add((kind, K > 2, assort, style if kind == 'ok' else x))
            st = tr[0][0]
            if kind == 'ok':
                if st != 'OK':
                    ctx.violation('reader', 'a well-formed initial-affinity file (K=%d, L=%d, %s) is rejected' % (K, L, 'assortative' if assort else 'general'), {'case': cases[c], 'file': bytes.fromhex(cases[c].split()[6]).decode('latin-1')})
                    continue
                w = oracles.floats(tr[0][1:])
                n = K * L if assort else K * K * L
                want = [-(p + 0.5) for p in range(n)]
                for a in range(L):
                    for k in range(K):
                        want[(k + a * K) if assort else (k + k * K + a * K * K)] = float(files.fmt_val(x[a][k]))
                if w != want:
                    ctx.violation('reader', 'values of the file do not land on the (k,k) entries of their layer (K=%d, L=%d, %s)' % (K, L, 'assortative' if assort else 'general'),
                                  {'case': cases[c], 'file': bytes.fromhex(cases[c].split()[6]).decode('latin-1'), 'vector': w, 'expected': want})
            else:
                if st != 'ERR':
                    ctx.violation('reject', 'an initial-affinity file whose shape disagrees with K=%d, L=%d (%s) is read instead of rejected' % (K, L, x),
                                  {'case': cases[c], 'file': bytes.fromhex(cases[c].split()[6]).decode('latin-1')})
    # ---- every realization restarts from file value + fresh noise in [0, 0.1)
    e2e, metas = [], {}
    for k in range(ctx.budget(80, 2000)):
        sub = rng.fork('e%d' % k)
        variant = (sub.chance(0.5), sub.chance(0.5), True)
        line, m = gen.gen_e2e(sub, 800000 + k, variant=variant, maxit_max=12, r=sub.rint(2, 4))
        e2e.append(line)
        metas[800000 + k] = m
    res2 = ctx.component('K-INIT', e2e, keys={'status', 'start:w'})
    if res2:
        for c, m in metas.items():
            tr = res2['impl'].get('E %d' % c)
            if not tr:
                continue
            n_eval += 1
            keys.add(('start', m['directed'], m['assort'], m['r']))
            seen = []
            for t in tr:
                if t[0] == 'start' and t[2] == 'w':
                    w = oracles.floats(t[4:])
                    noise = [w[p] - m['aff'][p] for p in range(len(w))]
                    if any(not (-1e-12 <= x < 0.1 + 1e-12) for x in noise):
                        ctx.violation('restart', 'realization %s does not start from the file values plus noise in [0, 0.1)' % t[1], {'case': e2e[c - 800000], 'start_minus_file': noise})
                        break
                    # FRESH noise per entry: no two entries of one start carry the same draw (two independent uniform draws agree to 1e-14 with
                    # probability ~1e-13; the recomputed differences of one shared draw agree to a few ulp)
                    shared = [(p, q) for p in range(len(noise)) for q in range(p + 1, len(noise)) if noise[p] > 1e-9 and abs(noise[p] - noise[q]) < 1e-14]
                    if shared:
                        ctx.violation('restart', 'realization %s: entries %d and %d of the start carry the SAME noise %.15g (not a fresh draw per entry)' % (t[1], shared[0][0], shared[0][1], noise[shared[0][0]]),
                                      {'case': e2e[c - 800000], 'start_minus_file': noise})
                        break
                    if w in seen:
                        ctx.violation('restart', 'two realizations start from the same affinity (no fresh noise)', {'case': e2e[c - 800000]})
                        break
                    seen.append(w)
    # ---- the command line with --w on the Gallina front end (CliMain.cli_main) vs the real binary: well-formed files of every layout, and
    #      mismatching files (must end abnormally, nothing written)
    import cli, copy
    if ctx.bdir:
        wdc = vf.workdir()
        cm = []
        cm_lines = []
        cidc = 780000
        for variant in [v_ for v_ in gen.VARIANTS if v_[2]]:
            for j in range(ctx.budget(2, 12)):
                _line, m = cli.make_case(rng.fork('cw%d' % cidc), cidc, wdc, variant=variant)
                cm.append(m)
                cm_lines.append(_line)
                cidc += 1
        bad = []
        for j, m0 in enumerate(cm[:ctx.budget(6, 30)]):
            m = copy.deepcopy(m0)
            m['cid'] = 790000 + j
            a = list(m['args'])
            open(os.path.join(m['dir'], 'w_bad.dat'), 'wb').write(files.mismatching_affinity(rng.fork('cb%d' % j), m['K'], m['L'])[0])
            a[a.index('--w') + 1] = 'w_bad.dat'
            if '--o' in a:
                a[a.index('--o') + 1] = 'out_bad'
            else:
                a += ['--o', 'out_bad']
            m['args'] = a
            m['out'] = os.path.join(m['dir'], 'out_bad')
            bad.append(m)
        cli.compare_with_model(ctx, ctx.bdir, cm + bad, name='K-CLI(model, --w)', check_created=False)
        # the same runs of the binary against the LIBRARY started from the file's values (every one of the four --w selections: that the
        # front end hands the values it read to a variant that uses them)
        resw = ctx.component('K-E2E(library started from the file, implementation only)', cm_lines, model=False)
        if resw:
            stw = cli.run_and_compare(ctx, ctx.bdir, cm, resw['impl'])
            n_eval += stw['runs']
    ctx.oracle.update({'evaluations': n_eval, 'distinct_nontrivial': len(keys),
                       'rule': 'read_affinity_data on generated files for every K in 2..5, L in 1..4, both models: well-formed files in several layouts (comment header, shuffled layers, tabs, blank lines) must put d_k on (k,k,layer) and leave the sentinels elsewhere; shape-mismatching files (columns +-1, ragged, extra/missing layer, layer id out of range or repeated, comment only, wrong K) must be rejected; start affinities of r = 2..4 realizations against file value + [0,0.1). distinct = (kind, K > 2, model, layout or mismatch kind)'})
    ctx.samples = [{'file': bytes.fromhex(cases[0].split()[6]).decode('latin-1')}]
