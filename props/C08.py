"""C08 -- the network built is exactly the multigraph the edge list describes."""
import math, collections
import gen, vf, oracles


def mult_of(w):
    x = float(w)
    if x > 1e-6:
        return int(math.ceil(x))
    return 0


def spec_multigraph(recs, directed, L):
    labels = gen.first_appearance(recs)
    idx = {x: i for i, x in enumerate(labels)}
    mult = [collections.Counter() for _ in range(L)]
    for s, t, ws in recs:
        for a in range(L):
            m = mult_of(ws[a])
            if m:
                mult[a][(idx[s], idx[t])] += m
    N = len(labels)
    has_out = set()
    has_in = set()
    for a in range(L):
        for (i, j), m in mult[a].items():
            has_out.add(i)
            has_in.add(j)
            if not directed:
                has_out.add(j)
                has_in.add(i)
    return labels, mult, sorted(has_out), sorted(has_in if directed else has_out)


def check_graph(ctx, line, tr, directed, L, recs):
    d = {}
    outs = {}
    ins = {}
    for t in tr:
        if t[0] == 'out':
            outs[(int(t[1]), int(t[2]))] = [int(x) for x in t[4:]]
        elif t[0] == 'in':
            ins[(int(t[1]), int(t[2]))] = [int(x) for x in t[4:]]
        else:
            d[t[0]] = t[1:]
    labels, mult, ul, vl = spec_multigraph(recs, directed, L)
    N = len(labels)
    bad = None
    if d.get('labels', []) != labels:
        bad = 'vertex labels are not the distinct labels in order of first appearance'
    elif [int(x) for x in d['dims']][0] != N or int(d['dims'][2]) != L:
        bad = 'wrong number of vertices/layers'
    elif int(d['nv'][0]) != N:
        bad = 'get_num_vertices disagrees with the number of distinct labels'
    else:
        total = 0
        for a in range(L):
            for i in range(N):
                if (a, i) not in outs:
                    bad = 'vertex %d missing in layer %d' % (i, a)
                    break
                c = collections.Counter(outs[(a, i)])
                for j in range(N):
                    if directed:
                        want = mult[a][(i, j)]
                    else:
                        want = mult[a][(i, j)] + mult[a][(j, i)]       # a self-loop is listed twice
                    if c[j] != want:
                        bad = 'layer %d: %d parallel edges %d->%d listed, the edge list gives %d' % (a, c[j], i, j, want)
                    total += 0
                if directed:
                    ci = collections.Counter(ins.get((a, i), []))
                    for j in range(N):
                        if ci[j] != mult[a][(j, i)]:
                            bad = 'layer %d: in-list of %d lists %d edges from %d, the edge list gives %d' % (a, i, ci[j], j, mult[a][(j, i)])
            if bad:
                break
        if not bad:
            ne = sum(sum(m.values()) for m in mult)
            if int(d['dims'][1]) != ne:
                bad = 'num_edges %s, the edge list gives %d' % (d['dims'][1], ne)
            elif [int(x) for x in d['ul'][1:]] != ul:
                bad = 'source vertex list %s, expected %s' % (d['ul'][1:], ul)
            elif [int(x) for x in d['vl'][1:]] != vl:
                bad = 'target vertex list %s, expected %s' % (d['vl'][1:], vl)
            elif 'LISTS-NOT-SHARED' in d:
                bad = 'undirected: source and target lists are not one shared list'
    if bad:
        ctx.violation('multigraph', bad, {'case': line, 'directed': directed, 'records': recs})
    return (N, L, directed, sum(sum(m.values()) for m in mult) > 0, any(len(set(r[:2])) == 1 for r in recs))


def expand_records(recs):
    """an integer weight m == m consecutive unit-weight records"""
    out = []
    for s, t, ws in recs:
        ms = [max(int(w), 0) for w in ws]
        m = max(ms) if ms else 0
        if m == 0:
            out.append((s, t, ['0'] * len(ws)))
        for k in range(m):
            out.append((s, t, ['1' if k < c else '0' for c in ms]))
    return out


def run(ctx):
    ctx.trusted = ['Coq 8.16.1 kernel; theorems closed under the global context (labels abstract with a decidable equality reflecting =)',
                   'correspondence K-GRAPH: graph::Network built by the real header (boost adjacency_list) vs the extracted model, lists compared IN ORDER; label types size_t/long/string, weight types size_t/long/double',
                   'modelled, not verified: boost append/iteration order (association lists for std::map), the loop `for (w = 0; w < weight; w++)` as ceil for real weights (count_real decodes the binary64 weight)']
    ctx.prove()
    if not ctx.build():
        return
    # a harness unit that reaches into an interface of the tree (Network / Tensor / reader and writer functions) may not compile against it after a
    # harmless renaming: whole calls through the public entry point, compared bit for bit with the model, are then the tie (DESIGN.md 4.5)
    ctx.fallback_e2e = lambda: [gen.gen_e2e(ctx.rng.fork('fb%d' % k), 950000 + k, maxit_max=25, r_max=2)[0] for k in range(ctx.budget(160, 2000))]
    rng = ctx.rng
    cases = []
    info = {}
    cid = 0
    # exhaustive small family: N <= 3, L <= 2, weights {0,1,2}
    bounds = {1: 3 if ctx.tier == 'quick' else 4, 2: 2 if ctx.tier == 'quick' else 3}
    if ctx.enlarge > 1:
        bounds = {1: 4, 2: 3}
    n_exh = 0
    for L in (1, 2):
        for L_, recs in gen.exhaustive_small_graphs(bounds[L], (L,)):
            for directed in (True, False):
                cases.append(gen.graph_case(cid, directed, 's', 'i', L, recs))
                info[cid] = (directed, L, recs)
                cid += 1
                n_exh += 1
    for k in range(ctx.budget(600, 12000)):
        line, meta = gen.gen_graph_random(rng.fork('g%d' % k), cid)
        cases.append(line)
        info[cid] = (meta['directed'], meta['L'], meta['recs'])
        cid += 1
    for k in range(ctx.budget(150, 1500)):
        # real weights at the 1e-6 threshold exactly and one ulp beside
        line, meta = gen.gen_graph_threshold(rng.fork('gt%d' % k), cid)
        cases.append(line)
        info[cid] = (meta['directed'], meta['L'], meta['recs'])
        cid += 1
    res = ctx.component('K-GRAPH', cases)
    # end to end: integer weight m == m unit records (bit-identical results)
    e2e = []
    pairs = []
    for k in range(ctx.budget(40, 800)):
        sub = rng.fork('x%d' % k)
        types = sub.choice([('u', 'u'), ('s', 'i')])
        line, meta = gen.gen_e2e(sub, 300000 + 2 * k, types=types, maxit_max=12, r_max=2)
        recs2 = expand_records(meta['recs'])
        t = line.split()
        # rebuild the same call on the expanded records
        line2 = gen.e2e_case(300000 + 2 * k + 1, meta['directed'], meta['assort'], meta['from_init'], meta['ltype'], meta['wtype'],
                             meta['r'], meta['maxit'], meta['nconv'], meta['seed'], [s for s, _, _ in recs2], [t_ for _, t_, _ in recs2],
                             [w for _, _, ws in recs2 for w in ws], meta['aff'], meta['N'], meta['K'], meta['u0'],
                             meta['N'] if meta['v0'] else 0, meta['K'] if meta['v0'] else 0, meta['v0'], [], [])
        e2e += [line, line2]
        pairs.append((300000 + 2 * k, 300000 + 2 * k + 1, line, line2))
    res2 = ctx.component('K-E2E(weighted vs expanded, implementation only)', e2e, model=False)
    n_eval = 0
    keys = set()
    if res:
        for c, (directed, L, recs) in info.items():
            tr = res['impl'].get('G %d' % c)
            if tr:
                n_eval += 1
                keys.add(check_graph(ctx, cases[c], tr, directed, L, recs))
    if res2:
        for a, b, la, lb in pairs:
            ta, tb = res2['impl'].get('E %d' % a), res2['impl'].get('E %d' % b)
            if ta and tb:
                n_eval += 1
                if ta != tb:
                    ctx.violation('expand', 'an integer weight m is not equivalent to m consecutive unit-weight records (results differ)',
                                  {'case_weighted': la, 'case_expanded': lb})
    # ---- end to end: the vertex sets the SOLVER treats as sources / targets (the rows it starts from a random draw and updates) are the ones of the
    #      network: directed calls on networks with vertices that only send or only receive; start states against the model, and rows against the lists
    st_cases, st_meta = [], {}
    for k in range(ctx.budget(60, 2000)):
        sub = ctx.rng.fork('st%d' % k)
        line, m = gen.gen_e2e(sub, 660000 + k, variant=(True, sub.chance(0.5), sub.chance(0.3)), maxit_max=6, r_max=2, trace=1, nmax=sub.choice([3, 5, 8]))
        st_cases.append(line)
        st_meta[660000 + k] = m
    res3 = ctx.component('K-E2E(start states: which rows are drawn)', st_cases, keys={'status', 'start:u', 'start:v'})
    if res3:
        for c, m in st_meta.items():
            tr = res3['impl'].get('E %d' % c)
            if not tr:
                continue
            d = oracles.trace_dict(tr)
            if d['status'][0][0] != 'OK':
                continue
            N, K = m['N'], m['K']
            _, ul, vl = gen.model_lists(m['recs'], True, m['wtype'])
            n_eval += 1
            keys.add(('rows', len(ul) < N, len(vl) < N))
            u = oracles.floats(d['u'][0][3:])
            v = oracles.floats(d['v'][0][3:])
            for name, mat, lst, what in (('out', u, ul, 'outgoing'), ('in', v, vl, 'incoming')):
                wrong = [i for i in range(N) if (i in lst) != any(mat[i * K + k_] != 0.0 for k_ in range(K)) and (i not in lst)]
                if wrong:
                    ctx.violation('lists(end to end)', 'vertex #%d has no %s edge in any layer but its %s-membership row is not zero after the run: the solver treats another vertex set than the network\'s' % (wrong[0], what, name),
                                  {'case': st_cases[c - 660000]})
                    break
    ctx.oracle.update({'evaluations': n_eval, 'distinct_nontrivial': len(keys),
                       'rule': 'exhaustive family (labels a,b,c; weights 0,1,2; <= %d records for L=1, <= %d for L=2; both directions: %d cases) + random edge lists (N <= 40, parallel/reversed records, self-loops, all-zero records, real weights around 1e-6) checked against an independent python multigraph; weighted-vs-expanded end-to-end pairs. distinct = different (N, L, direction, has edges, has self-loop)' % (bounds[1], bounds[2], n_exh),
                       'exhaustive_cases': n_exh})
    ctx.samples = [cases[3], cases[-1][:300]]
