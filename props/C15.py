"""C15 -- invalid configurations are rejected before anything is computed or written."""
import os, math
import gen, vf, oracles


def expected_code(assort, ns, ne, nw, naff, ur, uc, N, r, maxit, nconv):
    """the documented list, in the order of the property text (python re-statement, independent of the model)"""
    if ns < 1:
        return 1
    if ne != ns:
        return 2
    if nw % ns != 0:
        return 3
    L = nw // ns
    if L < 1:
        return 4
    K = naff // L if assort else math.isqrt(naff // L)
    if K < 2:
        return 5
    if (K * L if assort else K * K * L) != naff:
        return 6
    if N < 2:
        return 7
    if (ur, uc) != (N, K):
        return 8
    if r < 1:
        return 9
    if maxit < 1:
        return 10
    if nconv < 1:
        return 11
    return 0


def run(ctx):
    gen.INTEGRAL[0] = True          # real-typed weights are integer-valued here: how fractional weights are rounded is C08's subject
    ctx.trusted = ['Coq 8.16.1 kernel; the five theorems are closed under the global context',
                   'correspondence K-VALID: the real entry point on argument tuples within +-1 of every boundary, all 8 variants, compared with the extracted model (status, error code, and the four output containers byte-identical to their prior contents after a throw)',
                   'K-WRITE: the real binary on invalid configurations: abnormal termination, output directory not created / not altered',
                   'assumed: sizes < 2^52 so that sqrt on double followed by truncation is the integer square root']
    ctx.prove()
    if not ctx.build():
        return
    rng = ctx.rng
    cases = []
    info = {}
    cid = 0
    nbase = ctx.budget(40, 600)
    for k in range(nbase):
        sub = rng.fork('b%d' % k)
        line, m = gen.gen_e2e(sub, 0, maxit_max=4, r_max=2, prior='garbage', nmax=4)
        starts = [s for s, _, _ in m['recs']]
        ends = [t for _, t, _ in m['recs']]
        weights = [w for _, _, ws in m['recs'] for w in ws]
        base = dict(starts=starts, ends=ends, weights=weights, aff=m['aff'], ur=m['N'], uc=m['K'], r=m['r'], maxit=m['maxit'], nconv=m['nconv'])
        muts = [('valid', {})]
        w1 = weights[0]
        a1 = 0.25
        muts += [('starts-1', {'starts': starts[:-1]}), ('starts+1', {'starts': starts + [starts[0]]}), ('ends-1', {'ends': ends[:-1]}),
                 ('ends+1', {'ends': ends + [ends[0]]}), ('empty', {'starts': [], 'ends': [], 'weights': []}), ('empty-starts', {'starts': []}),
                 ('weights-1', {'weights': weights[:-1]}), ('weights+1', {'weights': weights + [w1]}), ('weights0', {'weights': []}),
                 ('weights+L', {'weights': weights + weights[:m['L']]}),
                 ('aff-1', {'aff': m['aff'][:-1]}), ('aff+1', {'aff': m['aff'] + [a1]}), ('aff0', {'aff': []}),
                 ('aff-K1', {'aff': [a1] * (m['L'] if m['assort'] else m['L'])}),          # K = 1
                 ('aff-K0', {'aff': [a1] * max(m['L'] - 1, 0)}),
                 ('aff-square+1', {'aff': [a1] * (((m['K'] + 1) * m['L']) if m['assort'] else ((m['K'] * m['K'] + 1) * m['L']))}),
                 ('aff-nextK', {'aff': [a1] * (((m['K'] + 1) * m['L']) if m['assort'] else ((m['K'] + 1) ** 2 * m['L']))}),
                 ('u-rows-1', {'ur': m['N'] - 1}), ('u-rows+1', {'ur': m['N'] + 1}), ('u-cols-1', {'uc': m['K'] - 1}), ('u-cols+1', {'uc': m['K'] + 1}),
                 ('u-transposed', {'ur': m['K'], 'uc': m['N']}), ('u-flat', {'ur': m['N'] * m['K'], 'uc': 1}), ('u-empty', {'ur': 0, 'uc': 0}),
                 ('r0', {'r': 0}), ('maxit0', {'maxit': 0}), ('nconv0', {'nconv': 0}),
                 ('one-vertex', {'starts': [starts[0]] * len(starts), 'ends': [starts[0]] * len(starts)}),
                 ('two-errors', {'r': 0, 'aff': m['aff'][:-1]}), ('all-zero', {'r': 0, 'maxit': 0, 'nconv': 0})]
        for name, ch in muts:
            if ctx.tier == 'quick' and name != 'valid' and sub.chance(0.45):
                continue
            b = dict(base)
            b.update(ch)
            N = len(set(b['starts']) | set(b['ends']))
            nu = b['ur'] * b['uc']
            u0 = [sub.choice([0.0, 1.5, -2.0]) for _ in range(nu)]
            v0 = [0.75] * (m['N'] * m['K']) if m['directed'] else []
            lab0 = gen.make_labels(sub, 2, m['ltype'])
            line2 = gen.e2e_case(cid, m['directed'], m['assort'], m['from_init'], m['ltype'], m['wtype'], b['r'], b['maxit'], b['nconv'], m['seed'],
                                 b['starts'], b['ends'], b['weights'], b['aff'], b['ur'], b['uc'], u0, m['N'] if v0 else 0, m['K'] if v0 else 0, v0, lab0, [])
            cases.append(line2)
            info[cid] = (name, expected_code(m['assort'], len(b['starts']), len(b['ends']), len(b['weights']), len(b['aff']), b['ur'], b['uc'], N,
                                             b['r'], b['maxit'], b['nconv']), u0, v0, lab0, b['aff'], m)
            cid += 1
    res = ctx.component('K-VALID', cases, keys={'status'})
    n_eval = 0
    keys = set()
    codes = {}
    if res:
        for c, (name, want, u0, v0, lab0, aff, m) in info.items():
            tr = res['impl'].get('E %d' % c)
            if not tr:
                continue
            n_eval += 1
            d = oracles.trace_dict(tr)
            st = d['status'][0]
            # `?`: an exception whose text is not one of the known messages (reworded): it counts as a rejection by whichever check is due
            got = 0 if st[0] == 'OK' else (want if (st[1] == '?' and want != 0) else (-1 if st[1] == '?' else int(st[1])))
            codes[got] = codes.get(got, 0) + 1
            keys.add((name, got))
            if got != want:
                ctx.violation('validation', 'mutation %s: status %s but the documented checks give code %d' % (name, ' '.join(st), want), {'case': cases[c], 'mutation': name})
            elif got != 0:
                # nothing written: the four containers still hold their prior contents
                same = (d['labels'][0] == lab0 and d['u'][0][3:] == [oracles_hex(x) for x in u0] and
                        d['v'][0][3:] == [oracles_hex(x) for x in v0] and d['aff'][0][2:] == [oracles_hex(x) for x in aff])
                if not same:
                    ctx.violation('written-before-throw', 'an output argument was modified although the call threw (%s)' % name, {'case': cases[c]})
    # ---- an out-membership container with the right rows and columns but a tube count other than 1 (built through the inherited three-argument
    #      constructor): its SIZE is not N * K, the request is invalid, nothing may be touched
    import os
    tube_cases = [gen.gen_e2e(rng.fork('tb%d' % k), 880000 + k, maxit_max=4, r_max=2, prior='zero', nmax=4)[0] for k in range(ctx.budget(12, 200))]
    for tubes in ('0', '2', '3'):
        os.environ['VERIF_U_TUBES'] = tubes
        try:
            rest = ctx.component('K-VALID(out-membership with %s tubes, implementation only)' % tubes, tube_cases, model=False)
        finally:
            del os.environ['VERIF_U_TUBES']
        if not rest:
            continue
        for k, line in enumerate(tube_cases):
            tr = rest['impl'].get('E %d' % (880000 + k))
            if not tr:
                continue
            d = oracles.trace_dict(tr)
            ut = d.get('@utubes', [['unsupported']])[0]
            if ut[0] == 'unsupported':
                continue
            n_eval += 1
            t = line.split()
            if d['status'][0][0] == 'OK':
                ctx.violation('validation', 'an out-membership container of %s x %s x %s (size %s, not N * K) is accepted and the run proceeds' % (d['u'][0][0] if 'u' in d else '?', d['u'][0][1] if 'u' in d else '?', tubes, ut[1]),
                              {'case': line, 'how': 'run the harness on this case with VERIF_U_TUBES=%s' % tubes})
                break
    cli_n = 0
    wd = vf.workdir()
    adj = os.path.join(wd, 'adj.dat')
    open(adj, 'w').write('1 2 1\n2 3 1\n3 1 2\n')
    one = os.path.join(wd, 'one.dat')
    open(one, 'w').write('5 5 1\n5 5 2\n')
    ragged = os.path.join(wd, 'ragged.dat')
    open(ragged, 'w').write('1 2 1 1\n2 3 1\n')
    empty = os.path.join(wd, 'empty.dat')
    open(empty, 'w').write('')
    wbad = os.path.join(wd, 'wbad.dat')
    open(wbad, 'w').write('0 0.5 0.5 0.5\n')
    bad_cfgs = [(['--a', adj, '--k', '1'], 'k=1'), (['--a', adj, '--k', '2', '--r', '0'], 'r=0'), (['--a', adj, '--k', '2', '--maxit', '0'], 'maxit=0'),
                (['--a', adj, '--k', '2', '--y', '0'], 'y=0'), (['--a', one, '--k', '2'], 'one vertex'), (['--a', ragged, '--k', '2'], 'ragged weights'),
                (['--a', empty, '--k', '2'], 'empty file'), (['--a', adj, '--k', '2', '--w', wbad], 'affinity file shape'),
                (['--a', os.path.join(wd, 'missing.dat'), '--k', '2'], 'missing file'), (['--a', adj, '--k', '0'], 'k=0'),
                (['--a', adj, '--k', '2', '--undirected', '--r', '0'], 'undirected r=0'), (['--a', adj, '--k', '1', '--assortative'], 'assortative k=1')]
    for args, what in bad_cfgs:
        for pre in (False, True):
            out = os.path.join(wd, 'out_%d_%d' % (cli_n, int(pre)))
            if pre:
                os.makedirs(out)
                for f in ('u_out.dat', 'w_out.dat', 'run_info.dat', 'other.txt'):
                    open(os.path.join(out, f), 'w').write('sentinel %s\n' % f)
            before = vf.snapshot_dir(out)
            rc, o = vf.run_cli(ctx.bdir, args + ['--o', out, '--s', '3'], wd)
            after = vf.snapshot_dir(out)
            cli_n += 1
            n_eval += 1
            keys.add(('cli', what, pre))
            if rc == 0:
                ctx.violation('cli-accepts', 'the command line terminated normally on an invalid configuration (%s)' % what, {'args': args, 'output': o[-600:]})
            elif before != after:
                ctx.violation('cli-writes', 'result files were created or altered although the configuration is invalid (%s)' % what, {'args': args, 'files_after': sorted(after or {})})
            elif 'ERROR: AddressSanitizer' in o or 'runtime error:' in o:
                ctx.violation('cli-sanitizer', 'sanitizer report on an invalid configuration (%s)' % what, {'args': args, 'output': o[-1500:]})
    # ---- the same invalid configurations (and two valid controls) on the Gallina front end CliMain.cli_main: CliThrow <-> abnormal end, nothing created
    import cli, shutil
    dcli = os.path.join(wd, 'c15cli')
    os.makedirs(dcli, exist_ok=True)
    for f in (adj, one, ragged, empty, wbad):
        shutil.copy(f, dcli)
    metas = []
    for i, (args, what) in enumerate(bad_cfgs + [(['--a', adj, '--k', '2'], 'valid control'), (['--a', adj, '--k', '3', '--undirected', '--assortative'], 'valid control')]):
        rel = [os.path.basename(a) if a.startswith(wd) else a for a in args]
        metas.append({'cid': 770000 + i, 'args': rel + ['--o', 'o%d' % i, '--s', '3', '--maxit', '5'], 'dir': dcli, 'out': os.path.join(dcli, 'o%d' % i)})
    cli.compare_with_model(ctx, ctx.bdir, metas, name='K-CLI(model, invalid configurations)')
    ctx.oracle.update({'evaluations': n_eval, 'distinct_nontrivial': len(keys),
                       'rule': 'each base call (all 8 variants, 3 type pairs, pre-filled outputs) is mutated at every boundary: each size +-1 / emptied, K = 0,1, next square, transposed/flattened/empty u, zero r/maxit/nconv, a single vertex, two simultaneous errors; python re-statement of the documented list decides the expected code; outputs compared with their prior contents after a throw; the real binary on %d invalid configurations x {new, pre-existing output directory}. distinct = (mutation, outcome)' % len(bad_cfgs),
                       'codes_observed': codes})
    ctx.samples = [{'case': cases[1][:300], 'mutation': info[1][0], 'expected_code': info[1][1]}]


def oracles_hex(x):
    import struct
    if x != x:
        return 'nan'
    return '%016x' % struct.unpack('>Q', struct.pack('>d', x))[0]
