"""C19 -- the Python front end dispatches to the variant its arguments name (static: translated table)."""
import os, re, shutil, subprocess
import vf

MUTATIONS = [
    ('wrong tensor in one block', lambda s: s.replace('bidirectionalS,\n                DiagonalTensor[numpy.float_t],\n                init_symmetric_tensor_random', 'bidirectionalS,\n                SymmetricTensor[numpy.float_t],\n                init_symmetric_tensor_random', 1)),
    ('c_v.resize dropped in one directed block', lambda s: s.replace('            c_v.resize(nof_vertices, nof_groups)  # we need v\n', '', 1)),
]


def run(ctx):
    ctx.trusted = ['Coq 8.16.1 kernel (vm_compute on the finite tables)',
                   'translator T5 (tools/pyxsim.py: run() of python/package/multitensor.pyx, Cython-only syntax removed, executed under recording stand-ins for numpy / the containers / the library for all 16 combinations -> GenPyx.v) and T3 (multitensor.cpp -> GenCli.v, regular expressions); T5 is self-tested on every run by two built-in mutations that must break the theorems',
                   'command line side of the agreement: the real binary, run on all 8 selections with the options in random order, against the library variant the table names (always, not only when T3 falls back)',
                   'NO runtime correspondence for the Python side: the Cython extension is not built in this sandbox (no Cython); what is verified is the behaviour of the Python-level control flow of run() under stand-ins, not the compiled extension']
    ctx.prove()
    # the command line's table (GenCli.v, T3) is the other side of "agrees with the command line's".  T3 reads the selection switch only: how the
    # options become the three booleans, and what the control flow around the switch does, it does not see.  So the real binary is ALWAYS run on all
    # 8 selections (options in random order) and compared with the library variant the reference table names for those arguments.
    if True:
        import gen, cli
        gen.INTEGRAL[0] = True
        if ctx.build():
            wd = vf.workdir()
            metas, lines, cid = [], [], 700000
            for variant in gen.VARIANTS:
                for j in range(ctx.budget(2, 12)):
                    line, m = cli.make_case(ctx.rng.fork('w%d' % cid), cid, wd, variant=variant, const_w=True)
                    lines.append(line)
                    metas.append(m)
                    cid += 1
            # runs in which NO realization is adopted (every likelihood NaN): the matrices written are the ones the front end allocated itself --
            # the in-membership matrix N x K exactly for the directed selections
            two = {'L': 2, 'recs': [('1', '2', ['1', '1']), ('2', '3', ['0', '1'])]}
            for variant in [v_ for v_ in gen.VARIANTS if v_[2]]:
                line, m = cli.make_case(ctx.rng.fork('ov%d' % cid), cid, wd, variant=variant, edges=two, overflow_w=True)
                lines.append(line)
                metas.append(m)
                cid += 1
            res2 = ctx.component('K-CLI(the binary on all 8 variants vs the library variant of the reference table)', lines, model=False)
            if res2:
                ctx.extra['cli_identification'] = cli.run_and_compare(ctx, ctx.bdir, metas, res2['impl'])
            # ... and against the Gallina front end the theorem C19_cli_switches_independent speaks about
            cli.compare_with_model(ctx, ctx.bdir, metas, name='K-CLI(model, 8 selections)', check_created=False)
    # translator self-test: the two built-in mutations of a scratch copy must make Properties_C19 fail
    detected = 0
    wd = vf.workdir()
    src = open(os.path.join(vf.REPO, 'python/package/multitensor.pyx')).read()
    for name, mut in MUTATIONS:
        m = mut(src)
        if m == src:
            ctx.notes.append('self-test mutation %r did not apply' % name)
            continue
        scratch = os.path.join(wd, 'repo_mut')
        shutil.rmtree(scratch, ignore_errors=True)
        os.makedirs(os.path.join(scratch, 'python/package'))
        open(os.path.join(scratch, 'python/package/multitensor.pyx'), 'w').write(m)
        # generate GenPyx from the mutated text into a scratch coq dir and re-check the property file there
        cq = os.path.join(wd, 'coq_mut')
        shutil.rmtree(cq, ignore_errors=True)
        os.makedirs(cq)
        for f in ('GenCli.v', 'DispatchSpec.v', 'CliDispatchProofs.v', 'PyxDispatchProofs.v', 'Properties_C19.v'):
            shutil.copy(os.path.join(vf.COQ, f), cq)
        code = ("import sys; sys.path.insert(0, %r); import translate; "
                "open(%r, 'w').write(translate.gen_pyx(%r))" % (os.path.join(vf.VERIF, 'tools'), os.path.join(cq, 'GenPyx.v'), scratch))
        rc, out = vf.sh(['python3', '-c', code])
        ok = rc == 0
        if ok:
            for f in ('GenCli', 'GenPyx', 'DispatchSpec', 'CliDispatchProofs', 'PyxDispatchProofs', 'Properties_C19'):
                rc, out = vf.sh(['coqc', '-Q', '.', 'MT', f + '.v'], cwd=cq, timeout=300)
                if rc != 0:
                    ok = False
                    break
        if not ok:
            detected += 1
        else:
            ctx.tie_failures.append('translator self-test: mutation %r of multitensor.pyx is NOT detected' % name)
    # the behaviour table (from the simulator) for the evidence; on a broken proof name the offending combination(s)
    import sys
    sys.path.insert(0, os.path.join(vf.VERIF, 'tools'))
    import pyxsim
    table = []
    try:
        table = pyxsim.simulate(src)
    except Exception as e:
        ctx.notes.append('simulation of run() failed: %s' % str(e)[:300])
    if not ctx.proof_ok or ctx.tie_failures:
        for r in table:
            wint, d, a, f = r['wint'], r['directed'], r['assort'], r['file']
            tens = ('DiagonalTensor' if a else 'SymmetricTensor') + '[numpy.float_t]'
            exp = ['bidirectionalS' if d else 'undirectedS', tens, ('init_symmetric_tensor_from_initial[%s]' % tens) if f else 'init_symmetric_tensor_random',
                   'vertex_t', 'numpy.%s_t' % ('int' if wint else 'float')]
            why = []
            if len(r['calls']) != 1:
                why.append('%d library calls instead of 1' % len(r['calls']))
            else:
                targs, args = r['calls'][0]
                if targs != exp:
                    why.append('instantiation %s, expected %s' % (targs, exp))
                if len(args) != 11:
                    why.append('%d positional arguments' % len(args))
                else:
                    if (args[8] == 'matrix nof_vertices x nof_groups') != d:
                        why.append('in-membership matrix is %r at the call' % args[8])
                    if any(x.startswith('unrecognised') for x in args):
                        why.append('argument not recognised: %s' % [x for x in args if x.startswith('unrecognised')][:2])
                    if args[3:6] != ['nof_realizations', 'max_nof_iterations', 'nof_convergences']:
                        why.append('scalar arguments %s' % args[3:6])
            if r['v_none'] != (not d):
                why.append('returned in-membership is %s' % ('None' if r['v_none'] else 'an array'))
            for k_ in ('u_ok', 'v_ok', 'aff_ok', 'report_ok'):
                if not r[k_]:
                    why.append('returned %s differs from the library result' % k_[:-3])
            if why:
                ctx.violation('dispatch', 'the Python entry point mishandles this argument combination: ' + '; '.join(why),
                              {'int_weights': wint, 'directed': d, 'assortative': a, 'affinity_file': f, 'calls': r['calls'], 'v_none': r['v_none']})
    ctx.oracle.update({'evaluations': 16 + len(MUTATIONS), 'distinct_nontrivial': 16,
                       'rule': 'exhaustive: run() executed under recording stand-ins for all 16 argument combinations (decided inside Coq by vm_compute over the generated behaviour table); plus %d built-in mutations of the pyx text that the translator + theorems must reject (%d rejected)' % (len(MUTATIONS), detected)})
    ctx.extra['exhaustive'] = True
    ctx.samples = [{k_: r[k_] for k_ in ('wint', 'directed', 'assort', 'file', 'calls', 'v_none')} for r in table[:2]]
