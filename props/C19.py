"""C19 -- the Python front end dispatches to the variant its arguments name (static: translated table)."""
import os, re, shutil, subprocess
import vf

MUTATIONS = [
    ('wrong tensor in one block', lambda s: s.replace('bidirectionalS,\n                DiagonalTensor[numpy.float_t],\n                init_symmetric_tensor_random', 'bidirectionalS,\n                SymmetricTensor[numpy.float_t],\n                init_symmetric_tensor_random', 1)),
    ('c_v.resize dropped in one directed block', lambda s: s.replace('            c_v.resize(nof_vertices, nof_groups)  # we need v\n', '', 1)),
]


def run(ctx):
    ctx.trusted = ['Coq 8.16.1 kernel (vm_compute on the finite tables)',
                   'translator T5 (python/package/multitensor.pyx -> GenPyx.v) and T3 (multitensor.cpp -> GenCli.v): regular expressions in tools/translate.py; self-tested on every run by two built-in textual mutations that must break the theorems',
                   'NO runtime correspondence: the Cython extension is not built in this sandbox (no Cython); what is verified is the source text of the dispatch blocks, not their compiled behaviour']
    ctx.prove()
    # translator self-test: the two built-in mutations of a scratch copy must make Properties_C19 fail
    detected = 0
    wd = vf.workdir()
    src = open(os.path.join(vf.REPO, 'python/package/multitensor.pyx')).read()
    for name, mut in MUTATIONS:
        m = mut(src)
        if m == src:
            ctx.notes.append('self-test mutation %r did not apply' % name)
            continue
        scratch = os.path.join(wd, 'repo_mut')
        shutil.rmtree(scratch, ignore_errors=True)
        os.makedirs(os.path.join(scratch, 'python/package'))
        open(os.path.join(scratch, 'python/package/multitensor.pyx'), 'w').write(m)
        # generate GenPyx from the mutated text into a scratch coq dir and re-check the property file there
        cq = os.path.join(wd, 'coq_mut')
        shutil.rmtree(cq, ignore_errors=True)
        os.makedirs(cq)
        for f in ('GenCli.v', 'DispatchSpec.v', 'CliDispatchProofs.v', 'PyxDispatchProofs.v', 'Properties_C19.v'):
            shutil.copy(os.path.join(vf.COQ, f), cq)
        code = ("import sys; sys.path.insert(0, %r); import translate; "
                "open(%r, 'w').write(translate.gen_pyx(%r))" % (os.path.join(vf.VERIF, 'tools'), os.path.join(cq, 'GenPyx.v'), scratch))
        rc, out = vf.sh(['python3', '-c', code])
        ok = rc == 0
        if ok:
            for f in ('GenCli', 'GenPyx', 'DispatchSpec', 'CliDispatchProofs', 'PyxDispatchProofs', 'Properties_C19'):
                rc, out = vf.sh(['coqc', '-Q', '.', 'MT', f + '.v'], cwd=cq, timeout=300)
                if rc != 0:
                    ok = False
                    break
        if not ok:
            detected += 1
        else:
            ctx.tie_failures.append('translator self-test: mutation %r of multitensor.pyx is NOT detected' % name)
    # list the table for the evidence; on a broken proof name the offending combination(s)
    gp = open(os.path.join(vf.COQ, 'GenPyx.v')).read()
    rows = re.findall(r'p_wint := (\(Some \w+\)|None); p_directed := (\(Some \w+\)|None); p_assort := (\(Some \w+\)|None); p_file := (\(Some \w+\)|None);\s*p_targs := \[(.*?)\]; p_vresize := (\w+);', gp)
    table = [{'cond': r[:4], 'targs': r[4], 'vresize': r[5]} for r in rows]
    if not ctx.proof_ok:
        # search: which of the 16 combinations is served wrongly?
        def lit(x):
            return None if x == 'None' else ('true' in x)
        bad = []
        for wint in (True, False):
            for d in (True, False):
                for a in (True, False):
                    for f in (True, False):
                        sel = [r for r in rows if all(lit(r[i]) in (None, v) for i, v in enumerate((wint, d, a, f)))]
                        exp = '"%s"; "%s[numpy.float_t]"; "%s"; "vertex_t"; "numpy.%s_t"' % (
                            'bidirectionalS' if d else 'undirectedS', 'DiagonalTensor' if a else 'SymmetricTensor',
                            ('init_symmetric_tensor_from_initial[%s[numpy.float_t]]' % ('DiagonalTensor' if a else 'SymmetricTensor')) if f else 'init_symmetric_tensor_random',
                            'int' if wint else 'float')
                        if len(sel) != 1 or sel[0][4] != exp or (sel[0][5] == 'true') != d:
                            bad.append({'int_weights': wint, 'directed': d, 'assortative': a, 'affinity_file': f, 'blocks_selected': len(sel),
                                        'template_arguments': [s[4] for s in sel], 'expected': exp})
        for b in bad[:3]:
            ctx.violation('dispatch', 'the Python entry point does not dispatch this argument combination to the instantiation it names', b)
    ctx.oracle.update({'evaluations': 16 + len(MUTATIONS), 'distinct_nontrivial': 16,
                       'rule': 'exhaustive: all 16 argument combinations of the translated table (decided inside Coq by vm_compute); plus %d built-in mutations of the pyx text that the translator + theorems must reject (%d rejected)' % (len(MUTATIONS), detected)})
    ctx.extra['exhaustive'] = True
    ctx.samples = table[:3]
