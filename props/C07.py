"""C07 -- determinism and purity."""
import os, subprocess
import gen, vf, oracles


def run(ctx):
    gen.INTEGRAL[0] = True          # real-typed weights are integer-valued here: how fractional weights are rounded is C08's subject
    ctx.trusted = ['Coq 8.16.1 kernel; theorems closed under the global context',
                   'correspondence K-E2E: sequences of interleaved calls of all variants in ONE process (the harness handles a whole case file in one process), each compared with the model\'s value for that call alone; the same calls again in fresh processes',
                   'cannot be exhibited by the model: reads of uninitialised memory, hidden static state -- covered by running every case under ASan/UBSan and by the repeat/interleave/pre-fill oracle; a grep for `static` / namespace-scope mutable variables in the headers is reported in the evidence',
                   'the report\'s seed is compared by the harness on every call (SEED-MISMATCH line)']
    ctx.prove()
    if not ctx.build():
        return
    rng = ctx.rng
    base = []
    metas = []
    n = ctx.budget(120, 3000)
    for k in range(n):
        sub = rng.fork('e%d' % k)
        line, meta = gen.gen_e2e(sub, k, maxit_max=20, r_max=3, prior='zero')
        base.append(line)
        metas.append(meta)
    # sequence: every call appears three times at shuffled positions (same ids suffix), once with pre-filled outputs
    seq = []
    groups = []
    cid = 0
    for k, line in enumerate(base):
        t = line.split()
        ids = []
        for rep in range(3):
            t2 = list(t)
            t2[1] = str(cid)
            ids.append(cid)
            cid += 1
            if rep == 2:
                # pre-fill the output containers with garbage (u, v when present, labels)
                sub = rng.fork('p%d' % k)
                m = metas[k]
                u0 = [sub.choice([sub.unit() * 9, 1e300, -2.0, 3e-7, float('nan')]) for _ in range(m['N'] * m['K'])]
                v0 = [sub.choice([sub.unit() * 9, -1.0, 1e-300]) for _ in range(m['N'] * m['K'])]
                lab = gen.make_labels(sub, sub.below(5), m['ltype'])
                line3 = gen.e2e_case(ids[-1], m['directed'], m['assort'], m['from_init'], m['ltype'], m['wtype'], m['r'], m['maxit'], m['nconv'],
                                     m['seed'], [s for s, _, _ in m['recs']], [t_ for _, t_, _ in m['recs']],
                                     [w for _, _, ws in m['recs'] for w in ws], m['aff'], m['N'], m['K'], u0, m['N'], m['K'], v0, lab, [])
                seq.append(line3)
            else:
                seq.append(' '.join(t2))
        groups.append(ids)
    order = rng.shuffle(list(range(len(seq))))
    seq = [seq[i] for i in order]
    res = ctx.component('K-E2E', seq, keys={'status', 'labels'})
    ctx.component('K-E2E(whole model)', seq[:len(seq) // 3], verdict=False)
    # fresh processes for a subset
    fresh_bad = 0
    n_fresh = 0
    if res and ctx.bdir:
        wd = vf.workdir()
        sub = [g[0] for g in groups[:ctx.budget(25, 200)]]
        byid = {vf.case_id(l): l for l in seq}
        for c in sub:
            cp = os.path.join(wd, 'fresh%d.cases' % c)
            open(cp, 'w').write(byid['E %d' % c] + '\n')
            rc, out = vf.run_impl(ctx.bdir, cp, cp + '.out', timeout=300)
            tr, _ = vf.parse_trace(cp + '.out')
            n_fresh += 1
            if tr.get('E %d' % c) != res['impl'].get('E %d' % c):
                fresh_bad += 1
                ctx.violation('fresh-process', 'a call gives different results in a fresh process than after other calls in the same process', {'case': byid['E %d' % c]})
    n_eval = 0
    keys = set()
    if res:
        for k, ids in enumerate(groups):
            trs = [res['impl'].get('E %d' % c) for c in ids]
            if any(t is None for t in trs):
                continue
            n_eval += 1
            m = metas[k]
            keys.add((m['directed'], m['assort'], m['from_init'], m['r'] > 1))
            def key(tr, skip_v):
                d = oracles.trace_dict(tr)
                return [d.get(x) for x in (('status', 'labels', 'u', 'aff', 'rep') if skip_v else ('status', 'labels', 'u', 'v', 'aff', 'rep'))]
            if key(trs[0], False) != key(trs[1], False):
                ctx.violation('repeat', 'repeating the call in the same process after other calls gives different results', {'case': base[k]})
            # undirected: v is an untouched in/out argument, so compare without it
            if key(trs[0], not m['directed']) != key(trs[2], not m['directed']):
                ctx.violation('prior-contents', 'prior contents of the output containers influence the results', {'case': base[k], 'prefilled_case': [l for l in seq if vf.case_id(l) == 'E %d' % ids[2]][0]})
            if any(t and t[0] == 'SEED-MISMATCH' for t in trs[0]):
                ctx.violation('seed', 'the report does not carry the seed supplied', {'case': base[k]})
    # the caller's generator object handed to two consecutive, otherwise identical calls (VERIF_REUSE_GEN: the harness makes the
    # second call itself and reports which outputs differ): the seed is the declared input, not the object's hidden engine state
    n_reuse = 0
    if res and ctx.bdir:
        sub_lines = [l for l in base[:ctx.budget(60, 1500)]]
        for i, l in enumerate(sub_lines):
            t = l.split()
            t[1] = str(900000 + i)
            sub_lines[i] = ' '.join(t)
        os.environ['VERIF_REUSE_GEN'] = '1'
        try:
            res2 = ctx.component('K-E2E(generator object reused)', sub_lines, model=False)
        finally:
            del os.environ['VERIF_REUSE_GEN']
        if res2:
            for l in sub_lines:
                tr = res2['impl'].get(vf.case_id(l))
                if tr is None:
                    continue
                for toks in tr:
                    if toks and toks[0] == '@genreuse':
                        n_reuse += 1
                        if len(toks) > 1 and toks[1] == 'diff':
                            ctx.violation('generator-reuse', 'two identical calls given the same generator object (same seed) return different ' + ' '.join(toks[2:]),
                                          {'case': l, 'how': 'run the harness on this case with VERIF_REUSE_GEN=1'})
    ctx.extra['generator_reuse_calls'] = n_reuse
    # the command line front end: the same arguments in two fresh processes (started in different wall-clock seconds) write the same
    # files, and run_info.dat carries the seed that was supplied -- seeds 0, 1, negative, large
    import files, time
    n_cli = 0
    if ctx.bdir:
        wdc = vf.workdir()
        for j, seed in enumerate(['0', '1', '-7', '5489', '00', '2147483647'][:ctx.budget(4, 6)]):
            d = os.path.join(wdc, 'cli_det%d' % j)
            os.makedirs(d)
            sub = rng.fork('cd%d' % j)
            e = gen.gen_edges(sub, 'u', 'u', nmax=5, lmax=2, recmax=8)
            open(os.path.join(d, 'a.dat'), 'wb').write(files.render_adjacency(sub, e['recs'], 'plain')[0])
            args = ['--a', 'a.dat', '--k', '2', '--r', '2', '--maxit', '12', '--s', seed] + (['--undirected'] if j % 2 else [])
            rc1, o1 = vf.run_cli(ctx.bdir, args + ['--o', 'o1'], d)
            time.sleep(1.1)
            rc2, o2 = vf.run_cli(ctx.bdir, args + ['--o', 'o2'], d)
            n_cli += 1
            f1, f2 = files.read_result_files(os.path.join(d, 'o1')), files.read_result_files(os.path.join(d, 'o2'))
            strip = lambda f: {n: [r for r in rows if r[:2] != ['#', 'Duration']] for n, rows in f.items()}
            if rc1 != rc2 or strip(f1) != strip(f2):
                ctx.violation('cli-repeat', 'the command line gives different results for the same arguments (--s %s) in two processes' % seed,
                              {'args': args, 'file': open(os.path.join(d, 'a.dat')).read(), 'differing': [n for n in f1 if strip(f1).get(n) != strip(f2).get(n)]})
            elif rc1 == 0:
                got = [r[3] for r in f1.get('run_info.dat', []) if r[:3] == ['#', 'Seed', '=']]
                if got != [str(int(seed))]:
                    ctx.violation('cli-seed', 'run_info.dat reports seed %s, the seed supplied was %s' % (got, seed), {'args': args})
    ctx.extra['cli_repeat_pairs'] = n_cli
    # lint: static / global state in the library headers
    lint = []
    for p in vf.walk(os.path.join(vf.REPO, 'include'), ('.hpp',)):
        if p.endswith('verif_hooks.hpp'):
            continue
        for n_, line in enumerate(open(p), 1):
            s = line.strip()
            if s.startswith('static ') and '(' not in s.split('=')[0]:
                lint.append('%s:%d: %s' % (os.path.relpath(p, vf.REPO), n_, s))
    ctx.extra['static_lint'] = lint
    if lint:
        ctx.notes.append('static variables in headers: ' + '; '.join(lint[:5]))
    ctx.oracle.update({'evaluations': n_eval + n_fresh, 'distinct_nontrivial': len(keys),
                       'rule': 'every call is made three times in one process at shuffled positions among calls of other variants (the third time with NaN/1e300/negative garbage in u, v and labels), and again in a fresh process for a subset; all results compared bit for bit. distinct = (variant, more than one realization)',
                       'fresh_processes': n_fresh})
    ctx.samples = [{'case': base[0][:300]}]
