"""C05 -- stopping rule."""
import itertools
import gen, vf, oracles

# tiny fixed networks for the scripted runs
NETS = [
    {'L': 1, 'recs': [('1', '2', ['1']), ('2', '3', ['1']), ('3', '1', ['2'])]},
    {'L': 2, 'recs': [('5', '6', ['1', '0']), ('6', '5', ['1', '2']), ('5', '5', ['0', '1']), ('7', '6', ['1', '1'])]},
]


def script_from_pattern(rng, bits, first_pass=False):
    """likelihood values realising a pass/fail pattern for evaluations 1..m (evaluation 0 is compared
    with lowest(): it fails unless the value is within 1e-4 relative of lowest())"""
    L = [oracles.LOWEST * (1 - 2e-5) if first_pass else -rng.choice([50.0, 3.25, 1e4, 7e-3])]
    for b in bits:
        prev = L[-1]
        if b:
            L.append(rng.choice([prev, prev * (1 + 3e-5), prev * (1 - 9e-5)]))
        else:
            L.append(rng.choice([prev * 1.5, prev * 0.9, prev * (1 + 2e-4), -prev]))
    return L


def run(ctx):
    gen.INTEGRAL[0] = True          # real-typed weights are integer-valued here: how fractional weights are rounded is C08's subject
    ctx.trusted = ['Coq 8.16.1 kernel; Print Assumptions below (C05_stop, C05_pass_predicate: closed; C05_params mentions the generated R/float constants, hence the standard real-number axioms and primitive floats)',
                   'translator T1 (params.hpp constants, `iteration % N == 0` in solver.hpp, termination_reason enum)',
                   'correspondence K-CTRL: the real Solver::run/loop driven through the likelihood_computed hook with scripted likelihood values vs the extracted model',
                   'modelled, not verified: IEEE semantics of the relative-change expression are those of Coq primitive floats / the hardware (bit-exact comparison checks it on every case)']
    ctx.prove()
    if not ctx.build():
        return
    rng = ctx.rng
    cases = []
    expect = {}
    cid = 0

    def add(net, variant, maxit, nconv, script, note):
        nonlocal cid
        e = NETS[net]
        line, meta = gen.gen_e2e(rng.fork('c%d' % cid), cid, variant=variant, types=('u', 'u'), edges=e,
                                 K=2, r=1, maxit=maxit, nconv=nconv, seed=7, script=[script], trace=1)
        cases.append(line)
        expect[cid] = (maxit, nconv, script, note)
        cid += 1

    m = ctx.budget(6, 8)                       # exhaustive pattern length
    if m > 8:
        m = 8
    for bits in itertools.product([0, 1], repeat=m):
        for nconv in (1, 2, 3):
            maxit = 10 * m + rng.choice([1, 2, 10])
            add(cid % 2, gen.VARIANTS[cid % 4], maxit, nconv, script_from_pattern(rng, bits), 'pattern')
    # shorter patterns with every maxit around the evaluation sweeps, nconv 1..5
    for k in range(ctx.budget(300, 4000)):
        mm = rng.rint(0, 8)
        bits = [rng.chance(0.65) for _ in range(mm)]
        maxit = rng.rint(1, 85)
        nconv = rng.rint(1, 5)
        sc = script_from_pattern(rng, bits, first_pass=rng.chance(0.05))
        # pad so that every evaluation up to maxit is scripted
        while len(sc) < (maxit + 9) // 10:
            sc.append(sc[-1] * rng.choice([1.0, 1.3, 1 + 5e-5]))
        add(cid % 2, gen.VARIANTS[rng.below(8) % 4], maxit, nconv, sc, 'random')
    # boundary and special values
    specials = [[-1.0, -(1 + 1e-4), -(1 + 1e-4) * (1 + 1e-4), -1.0002],
                [-1.0, -1.0000999999999999, -1.0001000000000002, -1.0001],
                [0.0, 0.0, 0.0, 0.0], [-5.0, 0.0, 0.0, 1.0],
                [float('inf'), float('inf'), 1.0, 1.0], [float('-inf'), float('-inf'), float('-inf'), -1.0],
                [float('nan'), float('nan'), -1.0, -1.0], [-1.0, float('nan'), -1.0, -1.0],
                [1e308, -1e308, -1e308, -1e308], [oracles.LOWEST, oracles.LOWEST, oracles.LOWEST, -3.0]]
    for sc in specials:
        for nconv in (1, 2):
            for maxit in (21, 31, 35):
                add(0, gen.VARIANTS[1], maxit, nconv, sc + [sc[-1]] * 4, 'special')
    # relative change EXACTLY 1e-4 in binary64 (and one ulp beside): `<` fails where `<=` would pass
    for sc in gen.conv_threshold_scripts(rng):
        for nconv in (1, 2):
            add(0, gen.VARIANTS[cid % 4], 45, nconv, sc, 'threshold')
    # several realizations in one run whose scripted likelihoods TIE across the realization boundary (the first evaluation of realization
    # i + 1 equals the last one of realization i): the first evaluation of a realization has no predecessor and never counts as a pass
    for j in range(ctx.budget(24, 200)):
        sub = rng.fork('mr%d' % j)
        x = -10.0 - sub.below(5)
        r_ = sub.rint(2, 4)
        nconv = sub.rint(1, 3)
        maxit = sub.choice([15, 21, 25, 31, 50])
        scripts = [[x] * 6 if sub.chance(0.7) else [x - 3.0, x - 1.0, x, x, x, x] for _ in range(r_)]
        e = NETS[cid % 2]
        line, meta = gen.gen_e2e(sub, cid, variant=gen.VARIANTS[cid % 4], types=('u', 'u'), edges=e, K=2, r=r_, maxit=maxit, nconv=nconv, seed=7, script=scripts, trace=1)
        cases.append(line)
        expect[cid] = (maxit, nconv, scripts, 'multi-realization tie')
        cid += 1
    res = ctx.component('K-CTRL', cases, keys={'status', 'rep'})
    # real (unscripted) trajectories reaching CONVERGED: nconv small, long maxit
    real_cases = []
    for k in range(ctx.budget(40, 600)):
        line, meta = gen.gen_e2e(rng.fork('real%d' % k), 100000 + k, r_max=2, nconv=rng.rint(1, 3), maxit=rng.rint(30, 400 if ctx.tier == 'thorough' else 150), trace=1)
        real_cases.append(line)
    res2 = ctx.component('K-E2E(real trajectories, implementation only)', real_cases, model=False)
    # ---- oracle: spec_stop (python, from the property text) vs the implementation's report
    n_eval = 0
    nontrivial = set()
    reasons = {'CONVERGED': 0, 'MAX_ITER': 0}
    if res:
        for c, (maxit, nconv, script, note) in expect.items():
            tr = res['impl'].get('E %d' % c)
            if not tr:
                continue
            rep = oracles.parse_rep(tr)
            if not rep:
                continue
            n_eval += 1
            # one script per realization (multi-realization cases), or the single script of realization 0
            per_real = script if (script and isinstance(script[0], list)) else [script]
            for ri, sc in enumerate(per_real):
                if ri >= len(rep):
                    break
                want = oracles.spec_stop(maxit, nconv, sc)
                got = rep[ri]
                reasons[got[1]] = reasons.get(got[1], 0) + 1
                same_L = (got[2] == want[2]) or (got[2] != got[2] and want[2] != want[2])
                nontrivial.add((got[0], got[1], nconv))
                if (got[0], got[1]) != (want[0], want[1]) or not same_L or not (1 <= got[0] <= maxit):
                    ctx.violation('stop-rule', 'scripted run, realization %d, stops at (%d, %s) but the documented rule gives (%d, %s)' % (ri, got[0], got[1], want[0], want[1]),
                                  {'case': cases[c], 'maxit': maxit, 'nconv': nconv, 'likelihoods': sc, 'observed': got[:3], 'expected': want})
                    break
    if res2:
        for k, line in enumerate(real_cases):
            tr = res2['impl'].get('E %d' % (100000 + k))
            if not tr:
                continue
            rep = oracles.parse_rep(tr)
            if not rep:
                continue
            t = line.split()
            maxit, nconv = int(t[8]), int(t[9])
            its = {}
            for x in tr:
                if x[0] == '@iter':
                    its.setdefault(int(x[1]), []).append((int(x[2]), int(x[3]), int(x[4]), vf.bits_to_float(x[5])))
            for rix, (n, rs, L, _h) in enumerate(rep):
                seq = its.get(rix, [])
                Ls = [l for (it, co, re_, l) in seq if (it - 1) % 10 == 0]
                if not Ls:
                    continue
                n_eval += 1
                want = oracles.spec_stop(maxit, nconv, Ls + [Ls[-1]] * 60)
                reasons[rs] = reasons.get(rs, 0) + 1
                nontrivial.add((n, rs, nconv))
                if (n, rs) != (want[0], want[1]) or len(seq) != n:
                    ctx.violation('stop-rule', 'realization stops at (%d, %s), %d sweeps observed, documented rule gives (%d, %s)' % (n, rs, len(seq), want[0], want[1]),
                                  {'case': line, 'realization': rix, 'evaluated_likelihoods': Ls, 'observed': (n, rs), 'expected': want})
    ctx.oracle.update({'evaluations': n_eval, 'distinct_nontrivial': len(nontrivial),
                       'rule': 'scripted likelihood sequences through the real loop: all pass/fail patterns of %d evaluations x nconv 1..3, random patterns with maxit 1..85, nconv 1..5, boundary/special values (1e-4 +- ulp, 0, inf, NaN, lowest); plus real trajectories. distinct = different (iterations, reason, nconv) outcome' % m,
                       'reasons': reasons})
    ctx.samples = [{'case': cases[0][:300], 'expected': str(oracles.spec_stop(*expect[0][:3]))}, {'case': cases[-1][:300]}]
