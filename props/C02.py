"""C02 -- one iteration equals the published EM update equations, in the documented order."""
import gen, vf, oracles, pyspec, analytic


def compare_state(ref_u, ref_v, ref_w, after, directed):
    """entrywise 1e-10 relative; returns description of the first difference or None"""
    for name, a, b in (('u', pyspec.flat_m(ref_u), pyspec.flat_m(after.u)),
                       ('v', pyspec.flat_m(ref_v), pyspec.flat_m(after.v)) if directed else ('v', [], []),
                       ('w', pyspec.flat_w(after, ref_w), pyspec.flat_w(after, after.w))):
        for p, (x, y) in enumerate(zip(a, b)):
            if not pyspec.close(x, y, 1e-10):
                return '%s[%d]: reference %r, implementation %r' % (name, p, x, y)
    return None


def judge_sweep(ctx, line, st0, A, after, what, reached=False):
    # reached = a state of a real trajectory: judged whatever it looks like (see C09.judge)
    if not reached and not analytic.invariant_holds(st0, A):
        return 'unreachable'
    pyspec.Margin.reset()
    ref = pyspec.em_sweep(st0, A)
    margin = pyspec.Margin.value
    diff = compare_state(ref['u1'], ref['v1'], ref['w1'], after, st0.directed)
    if diff and margin < 1e-9:
        return 'boundary'
    if diff:
        ctx.violation('em-equations', 'next state is not the reference map of the state (%s): %s' % (what, diff), {'case': line})
        return 'bad'
    return 'ok'


def run(ctx):
    gen.INTEGRAL[0] = True          # real-typed weights are integer-valued here: how fractional weights are rounded is C08's subject
    ctx.trusted = ['Coq 8.16.1 kernel; axioms: the standard library\'s real-number axioms (ClassicalDedekindReals.sig_forall_dec, sig_not_dec, functional_extensionality_dep, Classical_Prop.classic) as printed below',
                   'correspondence K-UPD-U / K-UPD-V / K-UPD-W / K-ORDER: update_vertices (out- and in-edges), update_affinity called individually and the composed Solver::loop, on installed states aimed at every guard (zeros, values around 1e-6, zero columns, zero layers), all four code paths, vs the extracted float model, bit for bit; K-GRAPH for the adjacency the sums run over',
                   'not verified: binary64 rounding -- the theorem is about exact reals; the oracle compares the implementation with the dense reference equations in python floats within the property\'s 1e-10 relative tolerance']
    ctx.prove()
    if not ctx.build():
        return
    rng = ctx.rng
    # when the UPD unit of the harness (private update functions of Solver) does not compile against the tree: whole calls through
    # the public entry point, all 8 variants, compared bit for bit with the model, are the tie instead (DESIGN.md 4.5)
    ctx.fallback_e2e = lambda: [gen.gen_e2e(ctx.rng.fork('fb%d' % k), 950000 + k, maxit_max=25, r_max=2)[0] for k in range(ctx.budget(160, 2000))]
    cases, metas = [], {}
    for k in range(ctx.budget(1200, 40000)):
        line, m = gen.gen_upd(rng.fork('u%d' % k), k, wtype='i')
        cases.append(line)
        metas[k] = m
    res = ctx.component('K-UPD', cases, keys={'dims', 'u1', 'v1', 'w1', 'sweep_u', 'sweep_v', 'sweep_w'})
    # the guards AT the threshold: every guarded quantity exactly 1e-6 (and one ulp beside), so that `>` / `>=` and `<` / `<=` differ
    thr = [gen.gen_upd_threshold(rng.fork('th%d' % k), 800000 + k, family=gen.THRESHOLD_FAMILIES[k % len(gen.THRESHOLD_FAMILIES)])[0]
           for k in range(ctx.budget(20, 200) * len(gen.THRESHOLD_FAMILIES))]
    rthr = ctx.component('K-UPD(threshold-exact)', thr, keys={'dims', 'u1', 'v1', 'w1', 'sweep_u', 'sweep_v', 'sweep_w'})
    if rthr:
        for mm in rthr['mismatches'][:3]:
            # every operation on these states is exact in binary64, so the model's value IS the documented update
            ctx.violation('threshold', 'on a state whose guarded quantity equals 1e-6 exactly (or sits one ulp beside it; all arithmetic exact) the update differs from the documented one (strict > 1e-6 to update, strict < 1e-6 to snap): %s' % mm.get('key'),
                          {'case': mm.get('case'), 'observable': mm.get('key'), 'implementation': mm.get('impl'), 'documented': mm.get('model')})
    traj, tmetas = [], {}
    for k in range(ctx.budget(60, 1500)):
        line, m = gen.gen_e2e(rng.fork('t%d' % k), 600000 + k, maxit_max=12, r_max=2, trace=2)
        traj.append(line)
        tmetas[600000 + k] = m
    res2 = ctx.component('K-E2E(trajectories, implementation only)', traj, model=False)
    n_eval = 0
    verdicts = {'ok': 0, 'boundary': 0, 'bad': 0, 'unreachable': 0}
    keys = set()
    branch = {'snapped': 0, 'low_rate': 0, 'skipped_w': 0, 'zero_entry': 0}
    if res:
        for k, m in metas.items():
            tr = res['impl'].get('U %d' % k)
            if not tr:
                continue
            ob = analytic.upd_observation(m, tr)
            n_eval += 1
            v = judge_sweep(ctx, cases[k], ob['st0'], ob['A'], ob['after'], 'installed state')
            verdicts[v] += 1
            rep = analytic.step_report(ob['st0'], ob['A'], ob['after'])
            branch['snapped'] += bool(rep['snapped'])
            branch['low_rate'] += rep['low_rate']
            branch['skipped_w'] += bool(rep['affinity_update_skipped'])
            branch['zero_entry'] += any(x == 0.0 for x in pyspec.flat_m(ob['st0'].u))
            keys.add((m['directed'], m['assort'], m['regime'], bool(rep['snapped']), rep['low_rate']))
    if res2:
        for c, m in tmetas.items():
            tr = res2['impl'].get('E %d' % c)
            if not tr:
                continue
            states, _ = analytic.e2e_states(tr, m)
            N2, A = pyspec.multiplicities(m['recs'], m['directed'], m['L'])
            for r, sts in states.items():
                its = sorted(sts)
                for a, b in zip(its, its[1:]):
                    if b != a + 1:
                        continue
                    n_eval += 1
                    v = judge_sweep(ctx, traj[c - 600000], sts[a], A, sts[b], 'realization %d sweep %d' % (r, b), reached=True)
                    verdicts[v] += 1
                    keys.add((m['directed'], m['assort'], m['from_init'], 'trajectory'))
    ctx.oracle.update({'evaluations': n_eval, 'distinct_nontrivial': len(keys), 'verdicts': verdicts, 'states_exercising': branch,
                       'rule': 'one sweep of the real Solver::loop from installed adversarial states (UPD) and every consecutive pair of states along real trajectories (E2E, trace level 2), all 8 variants, compared entrywise within 1e-10 relative with the dense reference equations (python, math.fsum); installed states whose membership rows outside the source/target lists are non-zero are not reachable and are only used for the bit-exact correspondence (`unreachable`); cases in which some guard comparison falls within 1e-9 relative of 1e-6 are set aside as decided by rounding (`boundary`). distinct = (variant, regime, snapped?, low rate?)'})
    ctx.samples = [{'case': cases[0][:400]}]
