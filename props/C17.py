"""C17 -- initialisation contract: fresh, seeded, correctly ranged starts."""
import collections
import gen, vf, oracles


def run(ctx):
    gen.INTEGRAL[0] = True          # real-typed weights are integer-valued here: how fractional weights are rounded is C08's subject
    ctx.trusted = ['Coq 8.16.1 kernel; all theorems closed under the global context',
                   'K-RNG: the OCaml driver\'s mt19937 + generate_canonical (the stream fed to the model) vs utils::RandomGenerator<> and an independently constructed std::mt19937 + uniform_real_distribution<double>, bit for bit',
                   'K-INIT: the state at the realization_start hook of the real Solver::run vs the extracted model, all 8 variants, r <= 4',
                   'trusted: libstdc++\'s engine and distribution themselves (the stream is an input of the model)']
    ctx.prove()
    if not ctx.build():
        return
    # a harness unit that reaches into an interface of the tree (Network / Tensor / reader and writer functions) may not compile against it after a
    # harmless renaming: whole calls through the public entry point, compared bit for bit with the model, are then the tie (DESIGN.md 4.5)
    ctx.fallback_e2e = lambda: [gen.gen_e2e(ctx.rng.fork('fb%d' % k), 950000 + k, maxit_max=25, r_max=2)[0] for k in range(ctx.budget(160, 2000))]
    rng = ctx.rng
    rcases = ['RNG %d %d %d' % (k, s, n) for k, (s, n) in enumerate([(0, 700), (1, 700), (42, 1300), (5489, 650), (2 ** 31 - 1, 100), (2 ** 32 - 1, 100),
                                                                       (123456789, 2000)] + [(rng.below(1 << 31), 64) for _ in range(ctx.budget(20, 300))])]
    rres = ctx.component('K-RNG', rcases)
    cases = []
    metas = {}
    for k in range(ctx.budget(250, 6000)):
        sub = rng.fork('e%d' % k)
        # prior contents of the output containers: zero, or garbage (the start must not depend on them)
        line, m = gen.gen_e2e(sub, 1000 + k, maxit_max=2, r_max=4, nmax=sub.choice([3, 6, 9]), prior=('zero' if k % 2 else 'garbage'))
        cases.append(line)
        metas[1000 + k] = m
    res = ctx.component('K-INIT', cases, keys={'status', 'start'})
    # reference streams from the implementation's own generator type, per seed
    n_eval = 0
    keys = set()
    if rres and res:
        for t in [x for tr in rres['impl'].values() for x in tr]:
            pass
        for tr in rres['impl'].values():
            d = oracles.trace_dict(tr)
            if d['draws'][0] != d['std'][0]:
                ctx.violation('generator', 'utils::RandomGenerator<> does not deliver the std::mt19937 / uniform_real_distribution<double> stream of its seed', {'trace': tr[0][:10]})
        # reference stream per seed via an extra harness run
        seeds = sorted(set(m['seed'] for m in metas.values()))
        needs = {}
        for m in metas.values():
            # what r realizations can consume at most: affinity + both membership matrices each
            needs[m['seed']] = max(needs.get(m['seed'], 0), m['r'] * (len(m['aff']) + 2 * m['N'] * m['K']) + 16)
        wd = vf.workdir()
        import os
        cp = os.path.join(wd, 'ref.cases')
        open(cp, 'w').write('\n'.join('RNG %d %d %d' % (i, s, needs[s]) for i, s in enumerate(seeds)) + '\n')
        vf.run_impl(ctx.bdir, cp, cp + '.out')
        tr, _ = vf.parse_trace(cp + '.out')
        ref = {}
        for i, s in enumerate(seeds):
            d = oracles.trace_dict(tr.get('R %d' % i, []))
            if 'std' in d:
                ref[s] = oracles.floats(d['std'][0])
        for c, m in metas.items():
            t = res['impl'].get('E %d' % c)
            if not t:
                continue
            d = oracles.trace_dict(t)
            if d['status'][0][0] != 'OK' or m['seed'] not in ref:
                continue
            stream = ref[m['seed']]
            N, K, L = m['N'], m['K'], m['L']
            _, ul, vl = gen.model_lists(m['recs'], m['directed'], m['wtype'])
            ul, vl = sorted(ul), sorted(vl)
            starts = {}
            for x in t:
                if x[0] == 'start':
                    starts.setdefault(int(x[1]), {})[x[2]] = oracles.floats(x[4:])
            off = 0
            n_eval += 1
            keys.add((m['directed'], m['assort'], m['from_init'], m['r'] > 1, len(ul) < N))
            for i in range(m['r']):
                st = starts.get(i)
                if st is None:
                    ctx.violation('init', 'no start state observed for realization %d' % i, {'case': cases[c - 1000]})
                    break
                w = st['w']
                bad = None
                # affinity
                if m['from_init']:
                    nw = len(w)
                    seg = stream[off:off + nw]
                    if m['assort']:
                        order = [(a, k) for a in range(L) for k in range(K)]
                        want = {k + a * K: m['aff'][k + a * K] + 0.1 * seg[p] for p, (a, k) in enumerate(order)}
                    else:
                        order = [(a, k, q) for a in range(L) for k in range(K) for q in range(K)]
                        want = {k + q * K + a * K * K: m['aff'][k + q * K + a * K * K] + 0.1 * seg[p] for p, (a, k, q) in enumerate(order)}
                    if any(w[p] != want[p] for p in range(nw)):
                        bad = 'start affinity is not file value + 0.1 x fresh draw per entry'
                elif m['assort']:
                    nw = K * L
                    seg = stream[off:off + nw]
                    if collections.Counter(w) != collections.Counter(seg):
                        bad = 'random diagonal affinity is not the next K*L draws'
                else:
                    nw = L * K * (K + 1) // 2
                    seg = stream[off:off + nw]
                    upper = [w[i_ + j * K + a * K * K] for a in range(L) for i_ in range(K) for j in range(i_, K)]
                    if collections.Counter(upper) != collections.Counter(seg):
                        bad = 'random affinity (upper triangles) is not the next L*K(K+1)/2 draws'
                    elif any(w[i_ + j * K + a * K * K] != w[j + i_ * K + a * K * K] for a in range(L) for i_ in range(K) for j in range(K)):
                        bad = 'random start affinity is not symmetric'
                if not bad and not m['from_init'] and any(not (0.0 <= x < 1.0) for x in w):
                    bad = 'random start affinity outside [0,1)'
                off += nw
                # memberships
                for name, lst in ((('v', vl),) if m['directed'] else ()) + (('u', ul),):
                    mat = st[name]
                    seg = stream[off:off + K * len(lst)]
                    rows = [mat[r_ * K:(r_ + 1) * K] for r_ in range(N)]
                    vals = [rows[r_][k] for r_ in lst for k in range(K)]
                    if not bad and collections.Counter(vals) != collections.Counter(seg):
                        bad = 'initial %s entries of the listed vertices are not the next K*|list| draws' % name
                    if not bad and any(x != 0.0 for r_ in range(N) if r_ not in lst for x in rows[r_]):
                        bad = 'a %s row of a vertex without edges is not zero at the start' % name
                    off += K * len(lst)
                if bad:
                    ctx.violation('init', 'realization %d: %s' % (i, bad), {'case': cases[c - 1000], 'realization': i, 'stream_offset': off})
                    break
    # ---- the front end: each of its 8 selections must hand the generator seeded with --s to the library (result files = the library's run from
    #      RandomGenerator(seed), bit for bit at 6 digits; the info file lists that seed)
    import cli
    if ctx.bdir:
        wdc = vf.workdir()
        cmetas, clines, ccid = [], [], 720000
        for variant in gen.VARIANTS:
            for j in range(ctx.budget(1, 8)):
                line, m = cli.make_case(rng.fork('cs%d' % ccid), ccid, wdc, variant=variant, const_w=True)
                clines.append(line)
                cmetas.append(m)
                ccid += 1
        resc = ctx.component('K-E2E(library from RandomGenerator(--s), implementation only)', clines, model=False)
        if resc:
            stc = cli.run_and_compare(ctx, ctx.bdir, cmetas, resc['impl'])
            n_eval += stc['runs']
        # ... and against the Gallina front end the theorems C17_cli_runs_from_the_given_seed* speak about
        cli.compare_with_model(ctx, ctx.bdir, cmetas, name='K-CLI(model, 8 selections)', check_created=False)
    ctx.oracle.update({'evaluations': n_eval, 'distinct_nontrivial': len(keys),
                       'rule': 'whole runs, all 8 variants, r <= 4, graphs with sink/source vertices: the entries observed at realization_start are compared (as multisets for the random starts, positionally for file value + 0.1 x draw) with consecutive segments of the reference std::mt19937/uniform stream of the seed; zero rows, range [0,1), symmetry. distinct = (variant, r > 1, some vertex outside u_list)'})
    ctx.samples = [{'case': cases[0][:300]}]
