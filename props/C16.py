"""C16 -- memory safety: index-range theorems (proof) + every component under ASan/UBSan/assertions (exploration)."""
import os
import gen, vf, files, oracles, cli
from C03 import degenerate_e2e


def run(ctx):
    ctx.level = 'other'
    ctx.extra['explanation'] = ('PARTIAL: the index-range obligations are machine-checked theorems about the model (tensor positions, vertex indices, '
                                'positions written by the affinity reader for all token contents, shape of the membership container); use-after-free, leaks, '
                                'integer wrap-around, boost/iostream internals and the heap cannot be exhibited by a Gallina model and are explored only by '
                                'running every component and the malformed-file streams under ASan+UBSan+LSan with assert() and _GLIBCXX_ASSERTIONS enabled; '
                                'a sanitizer report or assertion failure is the failing input.')
    ctx.trusted = ['Coq 8.16.1 kernel for the index-range theorems (closed under the global context)',
                   'g++ 12 -fsanitize=address,undefined -fno-sanitize-recover=all -D_GLIBCXX_ASSERTIONS, assertions enabled (no NDEBUG), detect_leaks=1; the harness and the real CLI binary are both built this way from the working tree',
                   'exploration only for everything that is not an index-range statement; -fsanitize=undefined of GCC does not include float-cast-overflow (static_cast<int>(max_L2) in the writers is not checked)']
    ctx.prove()
    if not ctx.build():
        return
    rng = ctx.rng
    # a harness unit that reaches into an internal interface may not compile against the tree: the public-entry-point runs below cover the same code
    ctx.fallback_e2e = lambda: [gen.gen_e2e(ctx.rng.fork('fb%d' % k), 950000 + k, maxit_max=25, r_max=2)[0] for k in range(ctx.budget(160, 2000))]
    n_eval = 0
    keys = set()
    # every correspondence component, sanitized (also compared with the model: a divergence is reported as tie failure)
    comps = [('K-GRAPH', [gen.gen_graph_random(rng.fork('g%d' % k), k)[0] for k in range(ctx.budget(400, 10000))]),
             ('K-UPD', [gen.gen_upd(rng.fork('u%d' % k), k)[0] for k in range(ctx.budget(500, 20000))]),
             ('K-E2E', [gen.gen_e2e(rng.fork('e%d' % k), k, maxit_max=30, r_max=3, prior=rng.choice(['zero', 'garbage']))[0] for k in range(ctx.budget(300, 10000))]),
             ('K-E2E(degenerate: K > L, edgeless networks, zero affinity layers)', [degenerate_e2e(rng.fork('d%d' % k), 50000 + k)[0] for k in range(ctx.budget(200, 5000))]),
             ('K-E2E(in-membership argument of any shape on entry, 2-3 realizations)', [gen.gen_e2e_vshape(rng.fork('vs%d' % k), 70000 + k, maxit_max=15, r=rng.rint(2, 3))[0] for k in range(ctx.budget(120, 4000))]),
             ('K-LAYOUT', gen.layout_cases(4))]
    for name, cs in comps:
        res = ctx.component(name + ' (implementation only)', cs, model=False, retain=False)
        n_eval += len(cs)
        keys.add(name)
    # malformed adjacency / affinity files through the in-process readers (implementation only)
    mal = []
    kinds = {}
    for k in range(ctx.budget(1500, 60000)):
        sub = rng.fork('m%d' % k)
        if k % 2 == 0:
            e = cli.int_recs(sub, nmax=5, lmax=3, recmax=8)
            data, kind = files.malformed_adjacency(sub, e['recs'])
            mal.append('PARSE %d %s' % (k, files.hexbytes(data)))
            kinds['adjacency-%d' % kind] = kinds.get('adjacency-%d' % kind, 0) + 1
        else:
            K, L, assort = sub.rint(2, 5), sub.rint(1, 4), sub.below(2)
            data, kind = (files.malformed_affinity if sub.chance(0.6) else files.mismatching_affinity)(sub, K, L)
            mal.append('RAFF %d %d %d %d %d %s' % (k, assort, K, L, sub.choice([0, K, K + 1]), files.hexbytes(data)))
            kinds['affinity-%d' % kind] = kinds.get('affinity-%d' % kind, 0) + 1
    res = ctx.component('K-PARSE(malformed, implementation only)', mal, model=False, retain=False)
    n_eval += len(mal)
    for k_ in kinds:
        keys.add(k_)
    # whole binary on malformed files: error or clean run, never a sanitizer report
    wd = vf.workdir()
    runs = 0
    outcomes = {'error': 0, 'ran': 0}
    for k in range(ctx.budget(40, 1500)):
        sub = rng.fork('b%d' % k)
        d = os.path.join(wd, 'mal%d' % k)
        os.makedirs(d)
        e = cli.int_recs(sub, nmax=5, lmax=2, recmax=8)
        if sub.chance(0.7):
            data, kind = files.malformed_adjacency(sub, e['recs'])
        else:
            data, kind = files.render_adjacency(sub, e['recs'])[0], 'ok'
        # a weight token that asks for an astronomic number of parallel edges (huge, or negative: operator>>(size_t&) reads -3 as 2^64 - 3) is a
        # RESOURCE request, not a memory-safety question: the binary is not run on it (the in-process readers above do parse such files)
        def tame(line):
            t = line.split(' ')
            nz = [i for i, x in enumerate(t) if x.strip()]
            for i in nz[2:]:
                x = t[i].strip()
                if (x.startswith('-') and x[1:].isdigit()) or (x.isdigit() and len(x) > 4):
                    t[i] = '7'
            return ' '.join(t)
        data = '\n'.join(tame(l) for l in data.decode('latin-1').split('\n')).encode('latin-1')
        open(os.path.join(d, 'a.dat'), 'wb').write(data)
        K = sub.rint(2, 4)
        args = ['--a', 'a.dat', '--k', str(K), '--maxit', '5', '--s', '1', '--o', 'o']
        if sub.chance(0.5):
            args.append('--undirected')
        if sub.chance(0.5):
            args.append('--assortative')
        if sub.chance(0.5):
            wdata, wkind = (files.malformed_affinity if sub.chance(0.5) else files.mismatching_affinity)(sub, K, e['L'])
            open(os.path.join(d, 'w.dat'), 'wb').write(wdata)
            args += ['--w', 'w.dat']
        rc, out = vf.run_cli(ctx.bdir, args, d, timeout=120)
        runs += 1
        outcomes['ran' if rc == 0 else 'error'] += 1
        if rc == 124 and any((len(t) > 6 and t.isdigit()) or (t.startswith('-') and t[1:].isdigit()) for l in data.decode('latin-1').split('\n') for t in l.split()[2:]):
            # (a negative weight token is read by operator>>(size_t&) as 2^64 - w: the same request for a huge multiplicity)
            outcomes['resource'] = outcomes.get('resource', 0) + 1      # a huge multiplicity was requested: not a memory-safety event
            continue
        if 'ERROR: AddressSanitizer' in out or 'runtime error:' in out or 'Assertion' in out or 'LeakSanitizer' in out or rc == 124:
            ctx.violation('cli-memory', 'the command line binary reports a memory/UB error, an assertion failure or hangs on a malformed input',
                          {'args': args, 'adjacency_file': data.decode('latin-1'), 'affinity_file': open(os.path.join(d, 'w.dat'), 'rb').read().decode('latin-1') if '--w' in args else None,
                           'output': out[-2000:]})
    n_eval += runs
    # crashes of any in-process component are violations with the failing case
    comp_cases = dict((n + ' (implementation only)', cs) for n, cs in comps)
    comp_cases['K-PARSE(malformed, implementation only)'] = mal
    for name, st in ctx.components.items():
        for c in st.get('crash_samples', []):
            case = c['case']
            if case is None and name in comp_cases:
                # a report at process exit (leak): bisect by running the cases one per process
                import os as _os
                for line in comp_cases[name][:400]:
                    cp = _os.path.join(vf.workdir(), 'one.cases')
                    open(cp, 'w').write(line + '\n')
                    rc1, out1 = vf.run_impl(ctx.bdir, cp, cp + '.out', timeout=120)
                    if rc1 != 0:
                        case, c = line, {'output': out1[-2500:], 'rc': rc1}
                        break
            ctx.violation('memory:' + name, 'sanitizer report / assertion failure / abnormal exit in component %s' % name, {'case': case, 'output': c['output']})
    # a crash already recorded as tie failure is the SAME event: keep only the violation
    ctx.tie_failures = [t for t in ctx.tie_failures if 'process exit' not in t]
    ctx.oracle.update({'evaluations': n_eval, 'distinct_nontrivial': len(keys), 'malformed_kinds': kinds, 'binary_runs': runs, 'binary_outcomes': outcomes,
                       'rule': 'all correspondence components (accepted inputs of all variants, prior contents zero or garbage) and byte/token mutations of adjacency and affinity files (ragged rows, extra/missing columns and layers, out-of-range and duplicated layer ids, comments, blank lines, non-numeric tokens, huge numbers, binary bytes) through the in-process readers and the real binary, all under ASan+UBSan+LSan with assertions: a report, an assertion failure or an abnormal exit of the harness is a violation. distinct = component / mutation kind'})
    ctx.samples = [{'malformed': bytes.fromhex(t.split()[-1] if len(t.split()) > (2 if t.startswith('PARSE') else 6) else '').decode('latin-1')} for t in mal[:2]]
