"""C04 -- the best realization is what is returned and reported."""
import itertools
import gen, vf, oracles
from C05 import NETS


def weak_orderings(n):
    """all weak orderings of n items as rank tuples (ranks 0..k-1, every rank used)"""
    out = []
    for ranks in itertools.product(range(n), repeat=n):
        used = sorted(set(ranks))
        if used == list(range(len(used))):
            out.append(ranks)
    return out


def finals(tr):
    """@final lines -> {realization: {'u': tokens, 'v': tokens, 'w': tokens}}"""
    f = {}
    for t in tr:
        if t[0] == '@final':
            f.setdefault(int(t[1]), {})[t[3]] = t[5:]
    return f


def check_selection(ctx, line, tr, directed, what):
    rep = oracles.parse_rep(tr)
    if not rep:
        return None
    d = oracles.trace_dict(tr)
    Ls = [x[2] for x in rep]
    fin = finals(tr)
    # the report against the sweeps actually performed: one iteration_end hook call per sweep (calls are COUNTED, their arguments not trusted),
    # the reason passed with the last call, the likelihood passed to realization_end
    calls = {}
    last_reason = {}
    for t in tr:
        if t[0] == '@iter':
            i = int(t[1])
            calls[i] = calls.get(i, 0) + 1
            last_reason[i] = int(t[4])
    names = {1: 'MAX_ITER', 2: 'CONVERGED'}
    for i, x in enumerate(rep):
        if i in calls and (x[0] != calls[i] or (last_reason.get(i) in names and x[1] != names[last_reason[i]])):
            ctx.violation('report', 'report entry %d lists %d iterations / %s, but %d sweeps were performed and the loop ended with %s (%s)' % (
                i, x[0], x[1], calls[i], names.get(last_reason.get(i), last_reason.get(i)), what), {'case': line, 'report': [y[:3] for y in rep]})
            break
    if any(l != l for l in Ls):
        return ('nan', len(Ls))
    best = oracles.first_argmax(Ls)
    adopted_any = Ls[best] > oracles.LOWEST
    key = (tuple(sorted(range(len(Ls)), key=lambda i: (-Ls[i], i))), directed)
    if not adopted_any:
        return key
    got_u = d['u'][0][3:]
    got_w = d['aff'][0][2:]
    got_v = d['v'][0][3:]
    ok = got_u == fin[best].get('u') and got_w == fin[best].get('w')
    if directed:
        ok = ok and got_v == fin[best].get('v')
    if not ok:
        # which realization, if any, do the returned factors belong to?
        src = [i for i in fin if fin[i].get('u') == got_u]
        srcw = [i for i in fin if fin[i].get('w') == got_w]
        ctx.violation('select', 'returned factors are not the final factors of the first best realization (%s)' % what,
                      {'case': line, 'likelihoods': Ls, 'first_best': best, 'u_from_realization': src, 'affinity_from_realization': srcw})
    # adopted flags: strictly better than everything before
    for t in d.get('@adopted', []):
        i, a = int(t[0]), int(t[1])
        prev = max([oracles.LOWEST] + Ls[:i])
        if (Ls[i] > prev) != bool(a):
            ctx.violation('select', 'realization %d adopted=%d but likelihoods say otherwise' % (i, a), {'case': line, 'likelihoods': Ls})
    return key


def run(ctx):
    gen.INTEGRAL[0] = True          # real-typed weights are integer-valued here: how fractional weights are rounded is C08's subject
    ctx.trusted = ['Coq 8.16.1 kernel; all four theorems closed under the global context',
                   'correspondence K-SELECT (scripted per-realization likelihoods through the real std::swap / Report::max_L2 code) and K-E2E vs the extracted model',
                   'modelled, not verified: std::swap / std::max_element semantics (the model folds with the strict comparison), NaN likelihoods excluded from the argmax theorem by hypothesis']
    ctx.prove()
    if not ctx.build():
        return
    rng = ctx.rng
    cases = []
    info = {}
    cid = 0
    rmax = 4
    for n in range(1, rmax + 1):
        for ranks in weak_orderings(n):
            for variant in gen.VARIANTS[:4]:
                if ctx.tier == 'quick' and n == 4 and variant[1]:
                    continue                                  # assortative x 4 realizations only in the thorough tier
                script = [[-20.0 + 1.5 * rk] for rk in ranks]
                line, meta = gen.gen_e2e(rng.fork('s%d' % cid), cid, variant=variant, types=('u', 'u'), edges=NETS[cid % 2],
                                         K=2, r=n, maxit=1, nconv=1, seed=3 + cid % 5, script=script, trace=1)
                cases.append(line)
                info[cid] = (variant[0], 'scripted ranks %s' % (ranks,))
                cid += 1
    # special values: -inf / lowest / NaN never beat the initial maximum
    for sc in ([[float('-inf')], [-3.0]], [[float('nan')], [-1.0], [-2.0]],
               [[-1.0], [float('nan')], [-0.5]], [[float('-inf')], [float('-inf')]]):
        for variant in gen.VARIANTS[:2]:
            line, meta = gen.gen_e2e(rng.fork('s%d' % cid), cid, variant=variant, types=('u', 'u'), edges=NETS[0],
                                     K=2, r=len(sc), maxit=1, nconv=1, seed=11, script=sc, trace=1)
            cases.append(line)
            info[cid] = (variant[0], 'special %s' % (sc,))
            cid += 1
    # report entries of every kind in one run: realizations that converge at the 2nd, 3rd, ... evaluation (sweep 11, 21, ...), that run into the
    # iteration limit, in every order, with ties among the likelihoods (iterations, reason and likelihood of EVERY realization, in execution order)
    def one(kind, x):
        if kind == 0:
            return [x - 7.0, x, x, x, x]                      # passes at the 3rd evaluation
        if kind == 1:
            return [x, x, x, x, x]                            # passes at the 2nd
        if kind == 2:
            return [x - 9.0, x - 5.0, x - 2.0, x - 1.0, x]    # never passes: MAX_ITER
        return [x - 3.0, x - 3.0, x - 1.0, x, x]              # passes, fails, ..., passes again
    for j in range(ctx.budget(48, 400)):
        sub = rng.fork('m%d' % j)
        n = sub.rint(2, 4)
        kinds = [sub.below(4) for _ in range(n)]
        vals = [sub.choice([-30.0, -25.0, -25.0, -12.5]) for _ in range(n)]
        script = [one(k_, x) for k_, x in zip(kinds, vals)]
        line, meta = gen.gen_e2e(sub, cid, variant=gen.VARIANTS[j % 4], types=('u', 'u'), edges=NETS[cid % 2], K=2, r=n,
                                 maxit=sub.choice([21, 25, 31, 41, 45]), nconv=sub.choice([1, 1, 2]), seed=3 + cid % 5, script=script, trace=1)
        cases.append(line)
        info[cid] = (gen.VARIANTS[j % 4][0], 'mixed terminations %s' % (kinds,))
        cid += 1
    res = ctx.component('K-SELECT', cases, keys={'status', 'rep'})
    # natural runs, several realizations, and prefix pairs r' < r
    nat = []
    pairs = []
    for k in range(ctx.budget(60, 1500)):
        rr = rng.rint(2, 4)
        sub = rng.fork('n%d' % k)
        if k % 4 == 3:
            # a directed call whose in-membership argument has any shape on entry (never sized, left over from another network): what comes back is
            # still the best realization's N x K matrix
            line, meta = gen.gen_e2e_vshape(sub, 200000 + 2 * k, directed=True, r=rr, maxit_max=30, trace=1)
        else:
            line, meta = gen.gen_e2e(sub, 200000 + 2 * k, r=rr, maxit_max=30, trace=1)
        rp = rng.rint(1, rr)
        t2 = line.split()
        t2[1] = str(200000 + 2 * k + 1)
        t2[7] = str(rp)                                       # same call, fewer realizations
        line2 = ' '.join(t2)
        nat += [line, line2]
        pairs.append((200000 + 2 * k, 200000 + 2 * k + 1, rr, rp, meta['directed']))
    res2 = ctx.component('K-E2E(natural runs, implementation only)', nat, model=False)
    n_eval = 0
    keys = set()
    if res:
        for c, (directed, what) in info.items():
            tr = res['impl'].get('E %d' % c)
            if tr:
                n_eval += 1
                k = check_selection(ctx, cases[c], tr, directed, what)
                if k:
                    keys.add(k)
    if res2:
        for (a, b, rr, rp, directed) in pairs:
            ta = res2['impl'].get('E %d' % a)
            tb = res2['impl'].get('E %d' % b)
            if not ta or not tb:
                continue
            n_eval += 1
            k = check_selection(ctx, nat[pairs.index((a, b, rr, rp, directed)) * 2], ta, directed, 'natural run')
            if k:
                keys.add(k)
            ra, rb = oracles.parse_rep(ta), oracles.parse_rep(tb)
            if ra is None or rb is None:
                continue
            if [x[:2] + (x[3],) for x in ra[:rp]] != [x[:2] + (x[3],) for x in rb]:
                ctx.violation('prefix', 'first %d report entries of the %d-realization run differ from the %d-realization run' % (rp, rr, rp),
                              {'case_r': nat[pairs.index((a, b, rr, rp, directed)) * 2], 'rep_r': [x[:3] for x in ra], 'rep_rprime': [x[:3] for x in rb]})
            elif max(x[2] for x in ra) < max(x[2] for x in rb):
                ctx.violation('prefix', 'best likelihood decreased with more realizations', {'rep_r': [x[:3] for x in ra], 'rep_rprime': [x[:3] for x in rb]})
    # ---- one public solver::Solver object used for two consecutive runs (what the project's own solver test does): the second run's report
    #      lists ITS realizations only, and its factors are those of ITS best realization -- i.e. what a fresh Solver delivers
    srun = []
    for k in range(ctx.budget(40, 1500)):
        sub = rng.fork('sr%d' % k)
        e = gen.gen_edges(sub, 's', 'i', nmax=sub.choice([3, 5, 7]), recmax=sub.choice([4, 9]))
        recs = [r_ for r_ in e['recs']]
        if len(recs) < 3:
            continue
        K = sub.rint(2, 3)
        toks = ['SRUN', str(880000 + k), str(int(sub.chance(0.5))), str(int(sub.chance(0.5))), str(K), str(e['L']), str(len(recs))]
        for s_, t_, ws in recs:
            toks += [s_, t_] + [str(max(0, int(float(w_)))) for w_ in ws]
        toks += [str(sub.rint(1, 3)), str(sub.choice([1, 5, 12, 25])), str(sub.rint(1, 2)), str(sub.below(100000))]
        srun.append(' '.join(toks))
    res_s = ctx.component('K-SOLVER(one Solver object, two runs; implementation only)', srun, model=False)
    if res_s:
        for line in srun:
            tr = res_s['impl'].get('S ' + line.split()[1])
            if not tr:
                continue
            d = {t[0]: t[1:] for t in tr}
            if 'second' not in d or 'fresh' not in d:
                continue
            n_eval += 1
            r_ = int(d['r'][0])
            if d['second'][:3] != [str(r_)] * 3:
                ctx.violation('report', 'the second run of a Solver object reports %s likelihoods / %s iteration counts / %s reasons for %d realizations' % (d['second'][0], d['second'][1], d['second'][2], r_),
                              {'case': line, 'second': d['second'][:40]})
            elif d['second'] != d['fresh']:
                ctx.violation('select', 'the second run of a Solver object does not deliver what a fresh Solver delivers for the same arguments (report, best likelihood or factors differ)',
                              {'case': line, 'second': d['second'][:60], 'fresh': d['fresh'][:60]})
    ctx.oracle.update({'evaluations': n_eval, 'distinct_nontrivial': len(keys),
                       'rule': 'exhaustive: every weak ordering (ties included) of the scripted likelihoods of 1..4 realizations x directed/undirected x general/assortative (4 realizations x assortative: thorough tier only), special values (-inf, lowest, NaN); natural multi-realization runs and prefix pairs (r\' <= r, same seed). distinct = different (ordering of the likelihoods, direction)'})
    ctx.extra['exhaustive'] = True
    ctx.samples = [{'case': cases[5][:300], 'what': info[5][1]}, {'case': nat[0][:300]}]
