"""C01 -- EM ascent: the log-likelihood never decreases between iterations (clean steps)."""
import gen, vf, oracles, pyspec, analytic

# witnesses of the two known findings (known_findings.txt), replayed first on the implementation as UPD cases
WITNESS_ASYM = {'directed': False, 'assort': False, 'K': 2, 'L': 1, 'wtype': 'i', 'recs': [('a', 'b', ['1'])],
                'u': [[0.4, 0.4], [0.6, 0.2]], 'v': [[0.0, 0.0], [0.0, 0.0]], 'w': [0.2, 0.2, 1.8, 1.2], 'regime': 'witness', 'N': 2}
WITNESS_SKIP = {'directed': False, 'assort': True, 'K': 3, 'L': 1, 'wtype': 'i',
                'recs': [('0', '1', ['2']), ('1', '2', ['1']), ('2', '3', ['1']), ('3', '0', ['1']), ('0', '0', ['1']), ('2', '2', ['1'])],
                'u': [[0.0098809894806688777, 0.00012260324966470893, 0.0], [0.0039523957894865083, 6.5381086534796842e-05, 0.00014674347932120953],
                      [0.0, 0.0, 0.00058697391728483811], [0.0019761978987727622, 9.0154993235715064e-06, 0.0001467434793212095]],
                'v': [[0.0] * 3] * 4, 'w': [32007.307843837138, 0.43713461085613403, 6892985.5869194428], 'regime': 'witness', 'N': 4}


def asymmetric(st):
    if st.assort:
        return False
    return any(st.w[a][k][q] != st.w[a][q][k] for a in range(st.L) for k in range(st.K) for q in range(st.K))


def judge(ctx, line, st0, A, after, what, stats, reached=False):
    # reached: the state was REACHED by the real code from a real start (a trajectory) -- it is judged whatever it looks like;
    # an INSTALLED state with non-zero rows outside the vertex lists is not reachable (proved) and is set aside
    stats['steps'] += 1
    if not reached and not analytic.invariant_holds(st0, A):
        stats['unreachable'] += 1            # membership rows outside the vertex lists are non-zero: not a reachable state
        return
    rep = analytic.step_report(st0, A, after)
    if not rep['clean']:
        stats['excepted'] += 1
        return
    ll0, _ = pyspec.loglik(st0, A)
    ll1, _ = pyspec.loglik(after, A)
    stats['clean'] += 1
    if not (rep['min_rate_after'] > pyspec.EPS):
        stats['excepted'] += 1
        return
    if ll1 < ll0 - 1e-9 * abs(ll0):
        info = {'case': line, 'LL_before': ll0, 'LL_after': ll1, 'where': what, 'min_observed_rate': rep['min_rate'],
                'affinity_update_skipped': rep['affinity_update_skipped']}
        if not st0.directed and asymmetric(st0):
            key = 'undirected-asymmetric-affinity'
        elif not st0.directed and rep['affinity_update_skipped']:
            key = 'undirected-affinity-update-skipped'
        else:
            key = 'decrease:%s-%s' % ('directed' if st0.directed else 'undirected', 'assortative' if st0.assort else 'general')
        stats['decreases'][key] = stats['decreases'].get(key, 0) + 1
        ctx.violation(key, 'log-likelihood decreases on a clean step (%s): %.12g -> %.12g' % (what, ll0, ll1), info)


def adversarial_upd(rng, cid, tier):
    """installed states in the wide regime (affinities 1e-4.5 .. 1e4.5), small graphs"""
    directed = rng.chance(0.5)
    assort = rng.chance(0.5)
    e = gen.gen_edges(rng, 's', 'i', nmin=2, nmax=5, lmax=2, recmax=7)
    K = rng.rint(2, 3)
    N, ul, vl = gen.model_lists(e['recs'], directed, 'i')
    lo, hi = rng.choice([(-3, 3), (-4.5, 4.5), (-1, 1)])
    def val():
        return 0.0 if rng.chance(0.08) else 10 ** (lo + (hi - lo) * rng.unit())
    u = [[val() if i in ul else 0.0 for _ in range(K)] for i in range(N)]
    v = [[val() if i in vl else 0.0 for _ in range(K)] for i in range(N)]
    wn = K * e['L'] if assort else K * K * e['L']
    w = [val() for _ in range(wn)]
    if not assort and (not directed) and rng.chance(0.7):
        for a in range(e['L']):
            for k in range(K):
                for q in range(k):
                    w[k + q * K + a * K * K] = w[q + k * K + a * K * K]
    line = gen.upd_case(cid, directed, assort, K, e['L'], 'i', e['recs'], u, v, w)
    return line, {'directed': directed, 'assort': assort, 'K': K, 'L': e['L'], 'N': N, 'regime': 'adversarial', 'recs': e['recs'],
                  'u': u, 'v': v, 'w': w, 'wtype': 'i'}


def run(ctx):
    gen.INTEGRAL[0] = True          # real-typed weights are integer-valued here: how fractional weights are rounded is C08's subject
    ctx.trusted = ['Coq 8.16.1 kernel; axioms: the standard library\'s real-number axioms (ClassicalDedekindReals.sig_forall_dec, sig_not_dec, functional_extensionality_dep, Classical_Prop.classic), as printed below',
                   'correspondence K-UPD (the three updates individually and composed; the likelihood function is NOT part of this property\'s tie: C06) and K-GRAPH vs the extracted float model, bit for bit; trajectories of whole runs are observed on the implementation only',
                   'not verified: binary64 rounding -- the ascent theorems are about exact reals; "monotone up to floating-point rounding" is checked on the implementation only by the monitor (tolerance 1e-9 relative)',
                   'undirected variants: only the half-steps are proved (C01_undirected_partial); the full claim is refuted in the model for asymmetric affinities and the witness reproduces on the implementation (known finding)']
    ctx.prove()
    if not ctx.build():
        return
    rng = ctx.rng
    # when the UPD unit of the harness (private update functions of Solver) does not compile against the tree: whole calls through
    # the public entry point, all 8 variants, compared bit for bit with the model, are the tie instead (DESIGN.md 4.5)
    ctx.fallback_e2e = lambda: [gen.gen_e2e(ctx.rng.fork('fb%d' % k), 950000 + k, maxit_max=25, r_max=2)[0] for k in range(ctx.budget(160, 2000))]
    cases, metas = [], {}
    # known-finding witnesses first
    for cid, m in ((0, WITNESS_ASYM), (1, WITNESS_SKIP)):
        cases.append(gen.upd_case(cid, m['directed'], m['assort'], m['K'], m['L'], m['wtype'], m['recs'], m['u'], m['v'], m['w']))
        metas[cid] = m
    for k in range(2, 2 + ctx.budget(800, 30000)):
        line, m = gen.gen_upd(rng.fork('u%d' % k), k, wtype='i')      # integer weights: the builder's handling of real weights is C08's business
        cases.append(line)
        metas[k] = m
    base = len(cases)
    for k in range(base, base + ctx.budget(1500, 400000)):
        line, m = adversarial_upd(rng.fork('a%d' % k), k, ctx.tier)
        cases.append(line)
        metas[k] = m
    res = ctx.component('K-UPD', cases, keys={'dims', 'u1', 'v1', 'w1', 'sweep_u', 'sweep_v', 'sweep_w'})
    traj, tmetas = [], {}
    for k in range(ctx.budget(80, 3000)):
        # every third run: several realizations into output containers that still hold an earlier result (what a caller re-using its matrices does)
        if k % 3 == 2:
            line, m = gen.gen_e2e(rng.fork('t%d' % k), 600000 + k, maxit_max=25, r=rng.rint(2, 3), trace=2, prior='previous')
        else:
            line, m = gen.gen_e2e(rng.fork('t%d' % k), 600000 + k, maxit_max=25, r_max=2, trace=2)
        traj.append(line)
        tmetas[600000 + k] = m
    res2 = ctx.component('K-E2E(trajectories, implementation only)', traj, model=False)
    stats = {'steps': 0, 'clean': 0, 'excepted': 0, 'unreachable': 0, 'decreases': {}}
    keys = set()
    if res:
        for k, m in metas.items():
            tr = res['impl'].get('U %d' % k)
            if not tr:
                continue
            ob = analytic.upd_observation(m, tr)
            judge(ctx, cases[k], ob['st0'], ob['A'], ob['after'], 'installed state' if k > 1 else 'witness of a known finding', stats)
            keys.add((m['directed'], m['assort'], m['regime']))
    if res2:
        for c, m in tmetas.items():
            tr = res2['impl'].get('E %d' % c)
            if not tr:
                continue
            states, _ = analytic.e2e_states(tr, m)
            N2, A = pyspec.multiplicities(m['recs'], m['directed'], m['L'])
            for r, sts in states.items():
                its = sorted(sts)
                for a, b in zip(its, its[1:]):
                    if b == a + 1:
                        judge(ctx, traj[c - 600000], sts[a], A, sts[b], 'realization %d iteration %d -> %d' % (r, a, b), stats, reached=True)
                        keys.add((m['directed'], m['assort'], m['from_init'], 'trajectory'))
    ctx.oracle.update({'evaluations': stats['steps'], 'distinct_nontrivial': len(keys), 'steps': stats,
                       'rule': 'monitor on implementation steps: exact-ish Poisson log-likelihood (python, math.fsum) before and after one sweep of the real code, from installed adversarial states (log-uniform magnitudes up to 1e+-4.5, zeros, symmetric and asymmetric affinities) and along real trajectories of all 8 variants; a step is judged only if clean (no entry snapped to zero, every observed rate > 1e-6 at the three intermediate states and after); flagged when LL drops by more than 1e-9 relative. The two recorded witnesses are replayed first. distinct = (variant, regime)'})
    ctx.samples = [{'witness_asymmetric': cases[0]}, {'case': cases[5][:300]}]
