"""C11 -- undirected mode: orientation-blind, single membership, symmetric affinity."""
import gen, vf, oracles, pyspec, analytic


def flip_some(rng, recs):
    """reverse a random subset of the records whose reversal keeps the order of first appearance"""
    seen = set()
    out = []
    nflip = 0
    for s, t, ws in recs:
        can = (s == t) or (s in seen) or (t in seen)
        if can and s != t and rng.chance(0.6):
            out.append((t, s, ws))
            nflip += 1
        else:
            out.append((s, t, ws))
        seen.add(s)
        seen.add(t)
    return out, nflip


def run(ctx):
    gen.INTEGRAL[0] = True          # real-typed weights are integer-valued here: how fractional weights are rounded is C08's subject
    ctx.trusted = ['Coq 8.16.1 kernel; reversal / v theorems closed under the global context; symmetry theorems: standard real-number axioms',
                   'correspondence K-GRAPH (undirected: each edge appended to both endpoint lists, self-loop twice), K-E2E, K-UPD vs the extracted float model',
                   'not verified: rounding makes the symmetry of the affinity approximate in binary64 (oracle: 1e-10 relative to the largest entry)']
    ctx.prove()
    if not ctx.build():
        return
    # a harness unit that reaches into an interface of the tree (Network / Tensor / reader and writer functions) may not compile against it after a
    # harmless renaming: whole calls through the public entry point, compared bit for bit with the model, are then the tie (DESIGN.md 4.5)
    ctx.fallback_e2e = lambda: [gen.gen_e2e(ctx.rng.fork('fb%d' % k), 950000 + k, maxit_max=25, r_max=2)[0] for k in range(ctx.budget(160, 2000))]
    rng = ctx.rng
    graphs = []
    for k in range(ctx.budget(300, 6000)):
        line, m = gen.gen_graph_random(rng.fork('g%d' % k), k)
        t = line.split()
        t[2] = '0'                                        # undirected
        graphs.append(' '.join(t))
    ctx.component('K-GRAPH', graphs)
    cases = []
    trip = []
    d2v_shape = {}
    for k in range(ctx.budget(150, 5000)):
        sub = rng.fork('e%d' % k)
        variant = (False, sub.chance(0.5), sub.chance(0.3))
        line, m = gen.gen_e2e(sub, 3 * k, variant=variant, maxit_max=30, r_max=2, prior='zero')
        recs2, nflip = flip_some(sub, m['recs'])
        N, K = m['N'], m['K']
        # the in-membership argument of an undirected call: empty, N x K, or ANY other shape (a matrix left over from a call on another network)
        vshape = (N, K) if k % 3 != 1 else sub.choice([s_ for s_ in [(2, 5), (N + 1, K), (N, K + 1), (1, 1), (3, 3), (K, N), (N * K, 1)] if s_ != (N, K)])
        def mk(cid, recs, v0):
            return gen.e2e_case(cid, False, m['assort'], m['from_init'], m['ltype'], m['wtype'], m['r'], m['maxit'], m['nconv'], m['seed'],
                                [s for s, _, _ in recs], [t for _, t, _ in recs], [w for _, _, ws in recs for w in ws], m['aff'], N, K, m['u0'],
                                (vshape[0] if v0 else 0), (vshape[1] if v0 else 0), v0, [], [])
        sentinel = [sub.choice([-7.5, 1e300, 3.25, float('nan')]) for _ in range(vshape[0] * vshape[1])]
        cases += [mk(3 * k, m['recs'], []), mk(3 * k + 1, recs2, []), mk(3 * k + 2, m['recs'], sentinel)]
        trip.append((3 * k, m, nflip, sentinel))
        d2v_shape[3 * k] = [str(vshape[0]), str(vshape[1])]
    res = ctx.component('K-E2E(triples, implementation only)', cases, model=False)
    n_eval = 0
    keys = set()
    max_asym = 0.0
    if res:
        for c, m, nflip, sentinel in trip:
            t0, t1, t2 = (res['impl'].get('E %d' % (c + i)) for i in range(3))
            if not t0 or not t1 or not t2:
                continue
            n_eval += 1
            keys.add((m['assort'], m['from_init'], nflip > 0, m['r'] > 1))
            if t0 != t1:
                ctx.violation('reversal', 'reversing %d record(s) of an undirected edge list (first appearance unchanged) changes the results' % nflip,
                              {'case': cases[c], 'reversed_case': cases[c + 1]})
            d0, d2 = oracles.trace_dict(t0), oracles.trace_dict(t2)
            if [d0.get(x) for x in ('status', 'labels', 'u', 'aff', 'rep')] != [d2.get(x) for x in ('status', 'labels', 'u', 'aff', 'rep')]:
                ctx.violation('v-read', 'the in-membership argument influences an undirected run', {'case': cases[c + 2]})
            if 'v' not in d2:
                continue
            want_v = [vf.bits_to_float(h) for h in d2['v'][0][3:]]
            same = len(want_v) == len(sentinel) and all((a == b) or (a != a and b != b) for a, b in zip(want_v, sentinel)) and (not sentinel or d2['v'][0][:2] == d2v_shape.get(c, d2['v'][0][:2]))
            if not same:
                ctx.violation('v-written', 'the in-membership argument was modified by an undirected run', {'case': cases[c + 2]})
            # symmetry of the affinity from the random start
            if not m['assort'] and not m['from_init'] and d0['status'][0][0] == 'OK':
                w = oracles.floats(d0['aff'][0][2:])
                K, L = m['K'], m['L']
                big = max([abs(x) for x in w] + [1e-300])
                for a in range(L):
                    for k in range(K):
                        for q in range(k):
                            x, y = w[k + q * K + a * K * K], w[q + k * K + a * K * K]
                            max_asym = max(max_asym, abs(x - y) / big)
                            if abs(x - y) > 1e-10 * big or (x == 0.0) != (y == 0.0):
                                ctx.violation('symmetry', 'inferred affinity of layer %d is not symmetric: w(%d,%d)=%r w(%d,%d)=%r' % (a, k, q, x, q, k, y), {'case': cases[c]})
    # ---- the same through the command line front end: the four undirected selections (with / without --assortative, with / without --w)
    import os, cli, files
    wd = vf.workdir()
    nb = 0
    for k in range(ctx.budget(12, 160)):
        sub = rng.fork('b%d' % k)
        e = cli.int_recs(sub, nmax=5, lmax=2, recmax=8)
        recs2, nflip = flip_some(sub, e['recs'])
        assort, from_file = bool(k & 1), bool(k & 2)
        K, L = sub.rint(2, 3), e['L']
        d = os.path.join(wd, 'rev%d' % k)
        os.makedirs(d)
        open(os.path.join(d, 'a.dat'), 'wb').write(files.render_adjacency(sub, e['recs'], 'plain')[0])
        open(os.path.join(d, 'b.dat'), 'wb').write(files.render_adjacency(sub, recs2, 'plain')[0])
        args = ['--k', str(K), '--s', str(sub.below(1000)), '--maxit', '12', '--r', '2', '--undirected'] + (['--assortative'] if assort else [])
        if from_file:
            open(os.path.join(d, 'w.dat'), 'wb').write(files.render_affinity(sub, K, L, [[round(sub.unit(), 3) for _ in range(K)] for _ in range(L)], 'plain')[0])
            args += ['--w', 'w.dat']
        rc1, o1 = vf.run_cli(ctx.bdir, ['--a', 'a.dat', '--o', 'oa'] + args, d)
        rc2, o2 = vf.run_cli(ctx.bdir, ['--a', 'b.dat', '--o', 'ob'] + args, d)
        nb += 1
        n_eval += 1
        keys.add(('cli', assort, from_file))
        fa, fb = files.read_result_files(os.path.join(d, 'oa')), files.read_result_files(os.path.join(d, 'ob'))
        strip = lambda f: {n: [r for r in rows if r[:2] != ['#', 'Duration']] for n, rows in f.items()}
        bad = None
        if (rc1 == 0) != (rc2 == 0):
            bad = 'one of the two runs fails (exit %s vs %s)' % (rc1, rc2)
        elif rc1 == 0 and strip(fa) != strip(fb):
            bad = 'result files differ: ' + ', '.join(n for n in fa if strip(fa).get(n) != strip(fb).get(n))
        elif rc1 == 0 and 'v_out.dat' in fa:
            bad = 'an in-membership file is written for an undirected run'
        if bad:
            ctx.violation('reversal-cli', 'command line, undirected%s%s: writing %d record(s) in the other orientation changes the results: %s' % (
                ' assortative' if assort else '', ' with --w' if from_file else '', nflip, bad),
                {'args': args, 'file': open(os.path.join(d, 'a.dat')).read(), 'reversed_file': open(os.path.join(d, 'b.dat')).read()})
    ctx.extra['binary_pairs'] = nb
    ctx.oracle.update({'evaluations': n_eval, 'distinct_nontrivial': len(keys), 'max_relative_asymmetry_observed': max_asym,
                       'rule': 'triples of undirected implementation runs (general/assortative, random/user-supplied affinity, self-loops, pairs listed in both orientations): original, a random admissible subset of records reversed (bit equality of everything), and the original with NaN/1e300 sentinels in the in-membership argument (returned untouched, nothing else changes); symmetry of the inferred affinity from the random start within 1e-10. distinct = (assortative, user-supplied, some record reversed, r > 1)'})
    ctx.samples = [{'case': cases[0][:300], 'reversed': cases[1][:300]}]
