"""C09 -- mass balance: expected edge count equals observed edge count per layer."""
import math
import gen, vf, oracles, pyspec, analytic
from C01 import adversarial_upd


def judge(ctx, line, st0, A, after, what, stats, reached=False):
    # reached: the state was REACHED by the real code from a real start (a trajectory) -- it is judged whatever it looks like;
    # an INSTALLED state with non-zero rows outside the vertex lists is not reachable (proved) and is set aside
    """st0 = state t, after = state t+1 (both from the implementation)"""
    N, K, L = st0.N, st0.K, st0.L
    u1, v1 = after.u, after.v
    stats['steps'] += 1
    if not reached and not analytic.invariant_holds(st0, A):
        stats['unreachable'] += 1
        return
    # preconditions evaluated on the observed states
    pre_i = pyspec.min_observed_rate(st0, A, u1, v1) > pyspec.EPS
    flat = pyspec.flat_w(st0, st0.w)
    pre_ii = all(x == 0.0 or x > pyspec.EPS for x in flat)
    Du = [math.fsum(u1[i][k] for i in range(N)) for k in range(K)]
    Dv = [math.fsum(v1[j][q] for j in range(N)) for q in range(K)]
    pre_iii = True
    for a in range(L):
        for k in range(K):
            for q in ([k] if st0.assort else range(K)):
                old = st0.w[a][k] if st0.assort else st0.w[a][k][q]
                if old > 0.0 and not (Du[k] * Dv[q] > pyspec.EPS):
                    pre_iii = False
    if not (pre_i and pre_ii and pre_iii):
        stats['precondition_fails'] += 1
        return
    pyspec.Margin.reset()
    _, skipped, snapped = pyspec.em_w(st0, A, u1, v1)
    if pyspec.Margin.value < 1e-9:
        stats['boundary'] += 1
        return
    stats['judged'] += 1
    for a in range(L):
        exp = pyspec.expected_edges(after, u1, v1, after.w, a)
        obs = float(sum(A[a].values()))
        if snapped[a] != 0.0:
            stats['with_snapped_mass'] += 1
        if not pyspec.close(exp, obs - snapped[a], 1e-9, 1e-12):
            ctx.violation('mass', 'layer %d (%s): expected number of edges %.15g, observed %g minus snapped mass %.3g' % (a, what, exp, obs, snapped[a]),
                          {'case': line, 'layer': a, 'expected': exp, 'observed': obs, 'snapped_mass': snapped[a]})
            return


def run(ctx):
    gen.INTEGRAL[0] = True          # real-typed weights are integer-valued here: how fractional weights are rounded is C08's subject
    ctx.trusted = ['Coq 8.16.1 kernel; axioms: the standard library\'s real-number axioms, as printed below',
                   'correspondence K-UPD-W (update_affinity alone and inside the composed sweep) and K-GRAPH vs the extracted float model, bit for bit',
                   'not verified: binary64 rounding (oracle tolerance 1e-9 relative)']
    ctx.prove()
    if not ctx.build():
        return
    rng = ctx.rng
    # when the UPD unit of the harness (private update functions of Solver) does not compile against the tree: whole calls through
    # the public entry point, all 8 variants, compared bit for bit with the model, are the tie instead (DESIGN.md 4.5)
    ctx.fallback_e2e = lambda: [gen.gen_e2e(ctx.rng.fork('fb%d' % k), 950000 + k, maxit_max=25, r_max=2)[0] for k in range(ctx.budget(160, 2000))]
    cases, metas = [], {}
    for k in range(ctx.budget(1500, 60000)):
        line, m = (gen.gen_upd(rng.fork('u%d' % k), k, wtype='i') if k % 3 else adversarial_upd(rng.fork('u%d' % k), k, ctx.tier))
        cases.append(line)
        metas[k] = m
    res = ctx.component('K-UPD-W', cases, keys={'dims', 'w1'})
    traj, tmetas = [], {}
    for k in range(ctx.budget(80, 3000)):
        # every third run: several realizations into output containers that still hold an earlier result (rows of vertices outside the lists
        # must be zero again at every realization's start, or the expected edge count exceeds the observed one)
        if k % 3 == 2:
            line, m = gen.gen_e2e(rng.fork('t%d' % k), 600000 + k, maxit_max=20, r=rng.rint(2, 3), trace=2, prior='previous')
        else:
            line, m = gen.gen_e2e(rng.fork('t%d' % k), 600000 + k, maxit_max=20, r_max=2, trace=2)
        traj.append(line)
        tmetas[600000 + k] = m
    res2 = ctx.component('K-E2E(trajectories, implementation only)', traj, model=False)
    stats = {'steps': 0, 'judged': 0, 'precondition_fails': 0, 'unreachable': 0, 'boundary': 0, 'with_snapped_mass': 0}
    keys = set()
    if res:
        for k, m in metas.items():
            tr = res['impl'].get('U %d' % k)
            if tr:
                ob = analytic.upd_observation(m, tr)
                judge(ctx, cases[k], ob['st0'], ob['A'], ob['after'], 'installed state', stats)
                keys.add((m['directed'], m['assort'], m['regime']))
    if res2:
        for c, m in tmetas.items():
            tr = res2['impl'].get('E %d' % c)
            if not tr:
                continue
            states, _ = analytic.e2e_states(tr, m)
            N2, A = pyspec.multiplicities(m['recs'], m['directed'], m['L'])
            for r, sts in states.items():
                its = sorted(sts)
                for a, b in zip(its, its[1:]):
                    if b == a + 1:
                        judge(ctx, traj[c - 600000], sts[a], A, sts[b], 'realization %d iteration %d' % (r, b), stats, reached=True)
                        keys.add((m['directed'], m['assort'], m['from_init'], 'trajectory'))
    ctx.oracle.update({'evaluations': stats['steps'], 'distinct_nontrivial': len(keys), 'steps': stats,
                       'rule': 'for every observed iteration t -> t+1 of the real code (installed states and real trajectories, all 8 variants, integer and real weights) whose preconditions (i)-(iii) hold on the observed states: per layer, sum of rates under the new factors vs number of oriented edges minus the snapped mass (python reference), 1e-9 relative. distinct = (variant, regime)'})
    ctx.samples = [{'case': cases[1][:300]}]
