"""C10 -- assortative model = general model restricted to diagonal affinities."""
import gen, vf, oracles, pyspec, analytic
from vf import bits_to_float


def embed_flat(K, L, diag):
    w = [0.0] * (K * K * L)
    for a in range(L):
        for k in range(K):
            w[k + k * K + a * K * K] = diag[k + a * K]
    return w


def run(ctx):
    gen.INTEGRAL[0] = True          # real-typed weights are integer-valued here: how fractional weights are rounded is C08's subject
    ctx.trusted = ['Coq 8.16.1 kernel; axioms: the standard library\'s real-number axioms, as printed below',
                   'correspondence K-UPD on PAIRED states (the same memberships; diagonal tensor vs its embedding) for both tensor types and K-LIK, vs the extracted float model, bit for bit',
                   'binary64: adding +0 and multiplying by 0 are exact, so the two code paths are expected to agree to the last bit except for the different summation nesting; the oracle uses the property\'s 1e-10 relative tolerance and demands exact zeros off the diagonal']
    ctx.prove()
    if not ctx.build():
        return
    rng = ctx.rng
    npairs = ctx.budget(250, 8000)
    rounds = ctx.budget(6, 25) if ctx.enlarge == 1 else 25
    # initial paired states
    pairs = []
    for k in range(npairs):
        sub = rng.fork('p%d' % k)
        directed = sub.chance(0.5)
        wtype = 'i'
        e = gen.gen_edges(sub, 's', wtype, nmax=sub.choice([3, 5, 7]), recmax=sub.choice([4, 9]))
        K = sub.rint(2, 4)
        N, ul, vl = gen.model_lists(e['recs'], directed, wtype)
        u, v, wd, regime = gen.gen_state(sub, N, K, e['L'], directed, True, ul=ul, vl=vl)
        pairs.append({'directed': directed, 'K': K, 'L': e['L'], 'N': N, 'recs': e['recs'], 'wtype': wtype, 'u': u, 'v': v, 'wd': wd,
                      'ug': u, 'vg': v, 'wg': embed_flat(K, e['L'], wd), 'alive': True, 'regime': regime})
    n_eval = 0
    keys = set()
    total_cases = 0
    for rd in range(rounds):
        cases = []
        for k, p in enumerate(pairs):
            if not p['alive']:
                continue
            cases.append(gen.upd_case(2 * k, p['directed'], True, p['K'], p['L'], p['wtype'], p['recs'], p['u'], p['v'], p['wd']))
            cases.append(gen.upd_case(2 * k + 1, p['directed'], False, p['K'], p['L'], p['wtype'], p['recs'], p['ug'], p['vg'], p['wg']))
        if not cases:
            break
        res = ctx.component('K-UPD(pairs) round %d' % rd, cases)
        total_cases += len(cases)
        if not res:
            break
        for k, p in enumerate(pairs):
            if not p['alive']:
                continue
            ta, tg = res['impl'].get('U %d' % (2 * k)), res['impl'].get('U %d' % (2 * k + 1))
            if not ta or not tg:
                p['alive'] = False
                continue
            da = {t[0]: t[1:] for t in ta}
            dg = {t[0]: t[1:] for t in tg}
            K, L, N = p['K'], p['L'], p['N']
            n_eval += 1
            keys.add((p['directed'], p['regime'], rd))
            ua, ug = analytic.fl(da['sweep_u']), analytic.fl(dg['sweep_u'])
            va, vg = (analytic.fl(da['sweep_v']), analytic.fl(dg['sweep_v'])) if p['directed'] else ([], [])
            wa, wg = analytic.fl(da['sweep_w']), analytic.fl(dg['sweep_w'])
            bad = None
            if any(not pyspec.close(x, y, 1e-10) for x, y in zip(ua + va, ug + vg)):
                bad = 'memberships differ after %d iteration(s)' % (rd + 1)
            else:
                for a in range(L):
                    for kk in range(K):
                        for q in range(K):
                            g = wg[kk + q * K + a * K * K]
                            if kk == q and not pyspec.close(g, wa[kk + a * K], 1e-10):
                                bad = 'diagonal affinity (%d,%d) differs after %d iteration(s): %r vs %r' % (kk, a, rd + 1, g, wa[kk + a * K])
                            if kk != q and g != 0.0:
                                bad = 'off-diagonal affinity (%d,%d,%d) is %r, not exactly zero' % (kk, q, a, g)
            la, lg = bits_to_float(da['sweep_lik'][0]), bits_to_float(dg['sweep_lik'][0])
            if not bad and not pyspec.close(la, lg, 1e-10, 1e-300):
                bad = 'likelihoods differ: assortative %r general %r' % (la, lg)
            if not bad and rd == 0 and 'lik' in da and 'lik' in dg and not pyspec.close(bits_to_float(da['lik'][0]), bits_to_float(dg['lik'][0]), 1e-10, 1e-300):
                bad = 'likelihoods of the start differ'
            if bad:
                ctx.violation('embedding', bad, {'assortative_case': cases[0] if False else gen.upd_case(2 * k, p['directed'], True, K, L, p['wtype'], p['recs'], p['u'], p['v'], p['wd']),
                                                 'general_case': gen.upd_case(2 * k + 1, p['directed'], False, K, L, p['wtype'], p['recs'], p['ug'], p['vg'], p['wg'])})
                p['alive'] = False
                continue
            # next round: each model continues from ITS OWN state
            p['u'] = [ua[i * K:(i + 1) * K] for i in range(N)]
            p['ug'] = [ug[i * K:(i + 1) * K] for i in range(N)]
            if p['directed']:
                p['v'] = [va[i * K:(i + 1) * K] for i in range(N)]
                p['vg'] = [vg[i * K:(i + 1) * K] for i in range(N)]
            p['wd'], p['wg'] = wa, wg
            if any(x != x or abs(x) == float('inf') for x in ua + wa):
                p['alive'] = False
    # merge the per-round component statistics into one entry
    merged = {'cases': 0, 'compared_tokens': 0, 'mismatches': 0, 'crashes': 0, 'wall_s': 0.0}
    for name in list(ctx.components):
        if name.startswith('K-UPD(pairs)'):
            c = ctx.components.pop(name)
            for f in ('cases', 'compared_tokens', 'mismatches', 'crashes', 'wall_s'):
                merged[f] += c.get(f, 0)
    ctx.components['K-UPD(pairs)'] = merged
    ctx.oracle.update({'evaluations': n_eval, 'distinct_nontrivial': len(keys), 'rounds': rounds, 'pairs': npairs,
                       'rule': 'pairs of implementation runs from the same memberships: assortative model with a diagonal start (zeros allowed, values around 1e-6) vs general model with its embedding, iterated for several sweeps each from its own state; memberships, diagonals and likelihoods within 1e-10 relative, off-diagonals exactly 0; directed and undirected. distinct = (direction, regime, iteration number)'})
    ctx.samples = [{'pair_start': gen.upd_case(0, pairs[0]['directed'], True, pairs[0]['K'], pairs[0]['L'], pairs[0]['wtype'], pairs[0]['recs'], pairs[0]['u'], pairs[0]['v'], pairs[0]['wd'])[:300]}]
