"""C06 -- reported likelihood = Poisson log-likelihood of the factors at the last evaluation."""
import gen, vf, oracles, pyspec, analytic
from C01 import adversarial_upd


def run(ctx):
    gen.INTEGRAL[0] = True          # real-typed weights are integer-valued here: how fractional weights are rounded is C08's subject
    ctx.trusted = ['Coq 8.16.1 kernel; formula theorems: standard real-number axioms; cadence theorem: closed under the global context',
                   'correspondence K-LIK (calculate_likelyhood on installed states incl. parallel edges, self-loops, both orientations listed, rates around 1e-6) and K-CTRL/K-E2E (which evaluation is reported) vs the extracted float model, bit for bit (model ln := OCaml log = glibc log)',
                   'not verified: accuracy of libm log and binary64 rounding: the oracle compares with a python math.fsum evaluation within 1e-9 relative']
    ctx.prove()
    if not ctx.build():
        return
    rng = ctx.rng
    # when the UPD unit of the harness (private update functions of Solver) does not compile against the tree: whole calls through
    # the public entry point, all 8 variants, compared bit for bit with the model, are the tie instead (DESIGN.md 4.5)
    ctx.fallback_e2e = lambda: [gen.gen_e2e(ctx.rng.fork('fb%d' % k), 950000 + k, maxit_max=25, r_max=2)[0] for k in range(ctx.budget(160, 2000))]
    cases, metas = [], {}
    for k in range(ctx.budget(700, 30000)):
        line, m = (gen.gen_upd(rng.fork('u%d' % k), k, wtype='i') if k % 2 else adversarial_upd(rng.fork('u%d' % k), k, ctx.tier))
        cases.append(line)
        metas[k] = m
    res = ctx.component('K-LIK', cases, keys={'dims', 'lik'})
    # the log-argument guard AT the threshold (rate of the observed pair exactly 1e-6, and one ulp beside)
    fams = ['Zij-u', 'Zij-v', 'undirected-Zij', 'old-u', 'Z-w']
    thr = [gen.gen_upd_threshold(rng.fork('th%d' % k), 800000 + k, family=fams[k % len(fams)])[0] for k in range(ctx.budget(40, 400) * len(fams))]
    rthr = ctx.component('K-LIK(threshold-exact)', thr, keys={'dims', 'lik'})
    if rthr:
        for mm in rthr['mismatches'][:3]:
            ctx.violation('threshold', 'on a state whose observed pair has rate exactly 1e-6 (or one ulp beside; all products exact) the likelihood differs from the documented one (pairs at or below 1e-6 contribute only -M)',
                          {'case': mm.get('case'), 'implementation': mm.get('impl'), 'documented': mm.get('model')})
    traj, tmetas = [], {}
    for k in range(ctx.budget(100, 3000)):
        line, m = gen.gen_e2e(rng.fork('t%d' % k), 600000 + k, maxit_max=45, r_max=2, trace=2, nconv=rng.rint(1, 2))
        traj.append(line)
        tmetas[600000 + k] = m
    res2 = ctx.component('K-E2E(trajectories, implementation only)', traj, model=False)
    n_eval = 0
    low = 0
    ambiguous = 0
    keys = set()
    if res:
        for k, m in metas.items():
            tr = res['impl'].get('U %d' % k)
            if not tr:
                continue
            ob = analytic.upd_observation(m, tr)
            for st, got, what in ((ob['st0'], ob['lik0'], 'installed state'), (ob['after'], ob['lik1'], 'state after one sweep')):
                if got is None:
                    continue
                ll, minrate = pyspec.loglik(st, ob['A'])
                n_eval += 1
                if not (minrate > pyspec.EPS) or abs(minrate - pyspec.EPS) < 1e-9 * pyspec.EPS:
                    low += 1            # general form applies (pairs at or below 1e-6 contribute only -M): loglik() implements it too
                keys.add((m['directed'], m['assort'], m['regime'], minrate > pyspec.EPS))
                if pyspec.LOGLIK_MARGIN[0] < 1e-9:
                    ambiguous += 1      # an observed rate within 1e-9 relative of 1e-6: decided by rounding; judged bit-exactly by K-LIK instead
                    continue
                if not pyspec.close(ll, got, 1e-9, 1e-12):
                    ctx.violation('formula', 'likelihood of the %s: implementation %.15g, sum A ln M - M gives %.15g' % (what, got, ll), {'case': cases[k]})
    if res2:
        for c, m in tmetas.items():
            tr = res2['impl'].get('E %d' % c)
            if not tr:
                continue
            states, liks = analytic.e2e_states(tr, m)
            rep = oracles.parse_rep(tr)
            N2, A = pyspec.multiplicities(m['recs'], m['directed'], m['L'])
            for r, sts in states.items():
                if rep is None or r >= len(rep):
                    continue
                n, rs, L2, _ = rep[r]
                jlast = (n - 1) // 10
                it_eval = 10 * jlast + 1
                st = sts.get(it_eval)
                if st is None:
                    continue
                ll, minrate = pyspec.loglik(st, A)
                n_eval += 1
                keys.add((m['directed'], m['assort'], m['from_init'], rs, n == it_eval))
                if pyspec.LOGLIK_MARGIN[0] < 1e-9:
                    ambiguous += 1
                elif not pyspec.close(ll, L2, 1e-9, 1e-12):
                    ctx.violation('cadence', 'realization %d (%d sweeps, %s): reported %.15g but the likelihood of the state after sweep %d is %.15g' % (r, n, rs, L2, it_eval, ll),
                                  {'case': traj[c - 600000], 'realization': r})
                # every evaluation along the way
                for (rr, it), (co, re_, l) in liks.items():
                    if rr == r and (it - 1) % 10 == 0 and it in sts:
                        ll2, _ = pyspec.loglik(sts[it], A)
                        n_eval += 1
                        if pyspec.LOGLIK_MARGIN[0] < 1e-9:
                            ambiguous += 1
                        elif not pyspec.close(ll2, l, 1e-9, 1e-12):
                            ctx.violation('formula', 'evaluation after sweep %d: implementation %.15g, formula %.15g' % (it, l, ll2), {'case': traj[c - 600000], 'realization': r})
    ctx.oracle.update({'evaluations': n_eval, 'distinct_nontrivial': len(keys), 'states_with_an_observed_rate_at_or_below_eps': low, 'set_aside_threshold_ambiguous': ambiguous,
                       'rule': 'calculate_likelyhood on installed states (random and adversarial regimes, parallel edges, self-loops, undirected) and after one sweep, and every evaluation of real trajectories (trace level 2), compared within 1e-9 relative with sum A ln M - M in python (math.fsum; log term only where M > 1e-6); the reported value of each realization against the state after sweep 10*floor((n-1)/10)+1. distinct = (variant, regime/termination, ...)'})
    ctx.samples = [{'case': cases[1][:300]}]
