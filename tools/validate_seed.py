#!/usr/bin/env python3
"""tools/validate_seed.py <seed dir under /tmp> [<check ids>...]
Confirms a seeded change independently (applies the patch to a scratch worktree of /repo HEAD, builds with cmake, runs the
unedited suite, runs the demonstration on both trees), then runs the given checks (default: all) against the patched tree
through VERIF_REPO, and stores everything under /verif/seeded/<name>/."""
import json, os, shutil, subprocess, sys, time
V = os.path.dirname(os.path.dirname(os.path.abspath(__file__)))
ALL = ['C%02d' % i for i in range(1, 20)]


def sh(cmd, **kw):
    p = subprocess.run(cmd, shell=True, stdout=subprocess.PIPE, stderr=subprocess.STDOUT, **kw)
    return p.returncode, p.stdout.decode('utf-8', 'replace')


def main():
    src = sys.argv[1].rstrip('/')
    name = os.path.basename(src).replace('seed_', '') if os.path.basename(src).startswith('seed_') else os.path.basename(src)
    ids = sys.argv[2:] or ALL
    wt = '/tmp/vs_wt_%s' % name
    sh('git -C /repo worktree remove --force %s' % wt)
    shutil.rmtree(wt, ignore_errors=True)
    rc, out = sh('git -C /repo worktree add %s HEAD' % wt)
    assert rc == 0, out
    result = {'name': name, 'when': time.strftime('%Y-%m-%d %H:%M')}
    try:
        rc, out = sh('git -C %s apply %s/patch.diff' % (wt, src))
        result['patch_applies'] = rc == 0
        if rc != 0:
            result['apply_output'] = out[-800:]
            return result
        rc, out = sh('cmake -G Ninja -S %s -B %s/_b -DCMAKE_BUILD_TYPE=RelWithDebInfo > /dev/null 2>&1; cmake --build %s/_b 2>&1 | tail -3' % (wt, wt, wt))
        rc2, out2 = sh('ctest --test-dir %s/_b -j8 --timeout 900 2>&1 | tail -4' % wt)
        result['suite_passes'] = ('100% tests passed' in out2)
        result['suite_tail'] = out2[-300:]
        shutil.rmtree(wt + '/_b', ignore_errors=True)
        rcA, outA = sh('bash %s/run_demo.sh /repo' % src, timeout=1200)
        rcB, outB = sh('bash %s/run_demo.sh %s' % (src, wt), timeout=1200)
        result['demo_on_repo_rc'] = rcA
        result['demo_on_patched_rc'] = rcB
        result['demo_confirmed'] = (rcA == 0 and rcB != 0)
        result['demo_output_patched'] = outB[-600:]
        env = dict(os.environ, VERIF_REPO=wt, VERIF_EVIDENCE_DIR='/tmp/vs_ev_%s' % name, VERIF_REPLAY_DIR='/tmp/vs_ev_%s' % name)
        caught = {}
        for i in ids:
            p = subprocess.run([os.path.join(V, 'check'), i, '--quick'], stdout=subprocess.PIPE, stderr=subprocess.STDOUT, env=env)
            o = p.stdout.decode('utf-8', 'replace')
            vl = [l for l in o.splitlines() if l.startswith('VIOLATION')]
            caught[i] = {'exit': p.returncode, 'violation_line': vl[0] if vl else None,
                         'summary': [l for l in o.splitlines() if l.startswith(i + ' quick')][:1],
                         'broken': [l.strip()[:300] for l in o.splitlines() if l.strip().startswith('broken:')][:3]}
            if vl and 'replay=' in vl[0]:
                rp = vl[0].split('replay=')[1].split()[0]
                try:
                    d = json.load(open(rp))
                    caught[i]['replay_kind'] = d.get('kind')
                    caught[i]['replay_what'] = (d.get('what') or '; '.join(d.get('no_longer_checks', [])))[:400]
                except Exception:
                    pass
        result['checks'] = caught
        result['caught_by'] = sorted(i for i, c in caught.items() if c['exit'] != 0)
    finally:
        sh('git -C /repo worktree remove --force %s' % wt)
        shutil.rmtree(wt, ignore_errors=True)
        shutil.rmtree('/tmp/vs_ev_%s' % name, ignore_errors=True)
        sh('python3 %s/tools/translate.py' % V)
    dst = os.path.join(V, 'seeded', name)
    os.makedirs(dst, exist_ok=True)
    for f in os.listdir(src):
        if os.path.abspath(src) != os.path.abspath(dst) and os.path.isfile(os.path.join(src, f)) and os.path.getsize(os.path.join(src, f)) < 2_000_000:
            shutil.copy(os.path.join(src, f), dst)
    try:
        meta = json.load(open(os.path.join(src, 'meta.json')))
    except Exception:
        meta = {}
    meta['validation'] = result
    json.dump(meta, open(os.path.join(dst, 'meta.json'), 'w'), indent=1)
    print(json.dumps({k: result.get(k) for k in ('name', 'patch_applies', 'suite_passes', 'demo_confirmed', 'caught_by')}))
    return result

main()
