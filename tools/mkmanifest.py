#!/usr/bin/env python3
"""writes /verif/MANIFEST.json from the table below (one entry per claimed property)."""
import json, os, subprocess
V = os.path.dirname(os.path.dirname(os.path.abspath(__file__)))
props = [json.loads(l) for l in open(os.path.join(V, 'properties.jsonl'))]
ENGINE = 'coq-model+correspondence'
COMMON_NOTE = ('trusted: Coq 8.16.1 kernel (vm_compute only for finite tables/examples, no native_compute); axioms exactly as printed by '
               'Print Assumptions in the evidence; extraction (ExtrOcamlBasic, ExtrOCamlFloats, ExtrOCamlInt63, no hand-written directives), '
               'the OCaml driver, the translators and the C++ harness (DESIGN.md section 8)')
CLAIMS = {
 'C04': ('proof', 'C04_select / C04_argmax_first / C04_report / C04_prefix proved for every arithmetic, sweep, likelihood and r (invariant of the r-fold over the explicit buffers); the real swap/max_L2 code is driven with every weak ordering of <= 4 scripted likelihoods and compared bit-for-bit with the extracted model',
         'Coq proof (fold invariant) + scripted-likelihood correspondence, exhaustive over orderings', 'NaN likelihoods are excluded from the argmax theorem by hypothesis; std::swap/std::max_element modelled'),
 'C05': ('proof', 'C05_stop proved for all maxit, nconv and every pass/fail sequence (induction on fuel against a declarative specification); period and thresholds re-translated from the source on every run; the real loop is driven with scripted likelihood sequences (all patterns up to a bound, boundary values) and compared with the extracted model',
         'Coq proof (loop invariant vs declarative spec) + scripted-likelihood correspondence', 'IEEE semantics of the relative-change expression are those of Coq primitive floats (checked bit-exactly on every case)'),
 'C07': ('proof', 'independence of the model\'s result from the prior contents of the output containers is proved (C07_prior_independent*, with the necessary proviso made explicit); that the model\'s signature is faithful is checked by bit-exact correspondence on shuffled sequences of calls in one process, pre-filled outputs and fresh processes',
         'Coq proof (buffer agreement invariant) + sequence/prior-content correspondence', 'reads of uninitialised memory and hidden static state cannot be exhibited by a Gallina model: sanitizers + repeat/interleave/pre-fill oracle only'),
 'C08': ('proof', 'vertex bijection in first-appearance order, edge multiplicities (directed and undirected), expansion of integer weights into unit records (equality of the built networks), source/target lists, index bounds -- proved for all edge lists; boost-built networks compared in order with the extracted model exhaustively on the small family and on random lists with three label types and three weight types',
         'Coq proof (builder invariant over fold_left) + exhaustive/random correspondence with boost', 'boost append order, std::map as association list, ceil loop for real weights are modelled'),
 'C12': ('proof', 'factorize commutes with every injective relabelling, also across label types (C12_relabel), proved at the level of the whole entry point; implementation pairs under order-reversing/sparse/negative/string relabellings compared bit-for-bit',
         'Coq proof (relabelling invariant of the builder lifted to factorize) + relabelled-pair correspondence', 'only label equality is used by the model; ordering-dependence of std::map would surface as a correspondence mismatch'),
 'C18': ('proof', 'layout theorems (formula, range, bijection, transpose, flat affinity vector, writer positions) proved for all dimensions; the C++ index expressions are re-translated from the source on every run and the real accessors/writer are compared exhaustively (<= 6) with the extracted model',
         'Coq proof over regenerated index expressions + exhaustive model/implementation correspondence', 'Python reshape in multitensor.pyx is not executed (extension not built here)'),
}
man = {
 'version': 1,
 'setup_cmd': 'tools/setup.sh',
 'hooks': {'guard': 'MULTITENSOR_VERIF',
           'enable': 'g++ -DMULTITENSOR_VERIF -I/repo/include -I/repo/applications/include (harness and CLI are compiled by the checks from /repo\'s working tree; cached by content hash under /verif/_build)',
           'baseline_off_cmd': 'cmake --build /repo/_build && ctest --test-dir /repo/_build -j8 --timeout 900',
           'source_commits': ['29b62a7'], 'add_only': True},
 'engines': [{'name': ENGINE, 'path': '/verif/check', 'serves_properties': sorted(CLAIMS),
              'kind_free_text': 'Coq 8.16.1 theorems about a hand-written executable Gallina model plus generated Gen*.v (translators over /repo); the extracted OCaml float model is compared bit-for-bit with the real C++ (sanitized, hooks on); per-property python oracles search the implementation for failing inputs'}],
 'checks': [], 'notes': 'see DESIGN.md; known findings and fixes: known_findings.txt', 'not_applicable': []}
for p in props:
    i = p['id']
    if i in CLAIMS:
        cat, text, tech, note = CLAIMS[i]
        man['checks'].append({'property_id': i, 'quick_cmd': './check %s --quick' % i, 'thorough_cmd': './check %s --thorough' % i,
                              'evidence_file': '/verif/evidence/%s.json' % i, 'replay_cmd_template': './check %s --replay {path}' % i,
                              'engine': ENGINE, 'level_claimed': {'category': cat, 'text': text, 'design_ref': 'DESIGN.md section 6, ' + i},
                              'level_note': note + '; ' + COMMON_NOTE, 'technique': tech})
    else:
        man['not_applicable'].append({'property_id': i, 'reason': 'check under construction in this round (model and theorems exist or are in progress; see DESIGN.md section 9); not claimed yet'})
json.dump(man, open(os.path.join(V, 'MANIFEST.json'), 'w'), indent=1)
print('claimed:', sorted(CLAIMS))
