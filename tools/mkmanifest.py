#!/usr/bin/env python3
"""writes /verif/MANIFEST.json from the table below (one entry per claimed property)."""
import json, os, subprocess
V = os.path.dirname(os.path.dirname(os.path.abspath(__file__)))
props = [json.loads(l) for l in open(os.path.join(V, 'properties.jsonl'))]
ENGINE = 'coq-model+correspondence'
COMMON_NOTE = ('trusted: Coq 8.16.1 kernel (vm_compute only for finite tables/examples, no native_compute); axioms exactly as printed by '
               'Print Assumptions in the evidence; extraction (ExtrOcamlBasic, ExtrOCamlFloats, ExtrOCamlInt63, no hand-written directives), '
               'the OCaml driver, the translators and the C++ harness (DESIGN.md section 8)')
CLAIMS = {
 'C01': ('proof', 'directed variants (general and assortative): ascent of the Poisson log-likelihood over one sweep and along trajectories proved over exact reals for every graph the builder produces (minorise-maximise lemma, three block instantiations, chained); undirected variants: the two half-steps are proved (C01_undirected_partial) and the full claim is REFUTED in the model for asymmetric affinities (C01_refuted_undirected_asym) -- the witness reproduces on the implementation and is a known finding, as is the second class (skipped affinity update); an ascent monitor runs on implementation steps in every check',
         'Coq proof (minorise-maximise, exact reals) + refutation witness + bit-exact correspondence + ascent monitor on the implementation',
         'PARTIAL for the undirected variants (half-steps only; two known findings in known_findings.txt); binary64 rounding not verified (monitor tolerance 1e-9)'),
 'C02': ('proof', 'sweep_gen / sweep_ass (code-shaped: adjacency lists, vertex lists, C++ evaluation order) proved EQUAL over exact reals to the dense published equations em_sweep_* of Spec.v, in the documented order, for all four code paths, under the invariants every reachable state satisfies (proved preserved); the three update functions and the composed loop are compared bit-for-bit with the extracted float model on states aimed at every guard',
         'Coq proof (model = dense published equations) + per-function bit-exact correspondence + reference-equation oracle',
         'binary64 rounding not verified (oracle: 1e-10 relative against python reference equations; threshold-ambiguous cases set aside and counted)'),
 'C03': ('proof', 'labels, shapes, zero rows, report length proved for the whole entry point for every arithmetic; non-negativity and "every division/logarithm sits under a guard > 1e-6" proved over exact reals; implementation results on degenerate inputs checked by direct predicate',
         'Coq proof (structural invariants through run + exact-real non-negativity/guards) + correspondence + result predicate',
         'overflow to +-inf in binary64 is NOT verified (no magnitude bound): finiteness of implementation outputs is only tested'),
 'C04': ('proof', 'C04_select / C04_argmax_first / C04_report / C04_prefix proved for every arithmetic, sweep, likelihood and r (invariant of the r-fold over the explicit buffers); the real swap/max_L2 code is driven with every weak ordering of <= 4 scripted likelihoods and compared bit-for-bit with the extracted model',
         'Coq proof (fold invariant) + scripted-likelihood correspondence, exhaustive over orderings', 'NaN likelihoods are excluded from the argmax theorem by hypothesis; std::swap/std::max_element modelled'),
 'C05': ('proof', 'C05_stop proved for all maxit, nconv and every pass/fail sequence (induction on fuel against a declarative specification); period and thresholds re-translated from the source on every run; the real loop is driven with scripted likelihood sequences (all patterns up to a bound, boundary values) and compared with the extracted model',
         'Coq proof (loop invariant vs declarative spec) + scripted-likelihood correspondence', 'IEEE semantics of the relative-change expression are those of Coq primitive floats (checked bit-exactly on every case)'),
 'C06': ('proof', 'the triple loop of calculate_likelyhood proved equal to sum A ln M - M over exact reals (general guard form and the plain formula when observed rates exceed 1e-6), for both tensor types and directions; the cadence (which evaluation is reported) proved for every arithmetic; likelihood compared bit-for-bit with the extracted model (ln := glibc log)',
         'Coq proof (closed form of the fold; cadence from the loop invariant) + bit-exact correspondence + independent formula oracle', 'libm log accuracy and binary64 rounding not verified (oracle 1e-9 relative)'),
 'C07': ('proof', 'independence of the model\'s result from the prior contents of the output containers is proved (C07_prior_independent*, with the necessary proviso made explicit); that the model\'s signature is faithful is checked by bit-exact correspondence on shuffled sequences of calls in one process, pre-filled outputs and fresh processes',
         'Coq proof (buffer agreement invariant) + sequence/prior-content correspondence', 'reads of uninitialised memory and hidden static state cannot be exhibited by a Gallina model: sanitizers + repeat/interleave/pre-fill oracle only'),
 'C08': ('proof', 'vertex bijection in first-appearance order, edge multiplicities (directed and undirected), expansion of integer weights into unit records (equality of the built networks), source/target lists, index bounds -- proved for all edge lists; boost-built networks compared in order with the extracted model exhaustively on the small family and on random lists with three label types and three weight types',
         'Coq proof (builder invariant over fold_left) + exhaustive/random correspondence with boost', 'boost append order, std::map as association list, ceil loop for real weights are modelled'),
 'C09': ('proof', 'per-layer mass identity INCLUDING the truncation term (expected = observed - snapped mass, 0 <= snapped mass <= 1e-6 * sum Du * sum Dv) proved over exact reals for all four code paths from the property\'s preconditions (i)-(iii); update_affinity compared bit-for-bit with the extracted model; per-layer mass checked on implementation steps',
         'Coq proof (responsibilities sum to one per edge; truncation bookkeeping) + correspondence + mass oracle', 'binary64 rounding not verified (oracle 1e-9 relative)'),
 'C10': ('proof', 'sweep_gen on the embedded diagonal tensor = embedding of sweep_ass, likelihoods equal, any number of iterations, off-diagonals exactly zero -- proved over exact reals for both directions; paired implementation runs iterated from the same start compared within 1e-10 with exact-zero off-diagonals',
         'Coq proof (Kronecker collapse of the general sums) + paired-state correspondence', 'binary64: the two code paths nest their sums differently; agreement within 1e-10 is tested, not proved'),
 'C11': ('proof', 'orientation-blindness (any subset of records reversed, first appearance unchanged) and the untouched / unread in-membership argument proved for the whole entry point and every arithmetic; symmetry of the affinity from the random start proved over exact reals (permutation of the oriented edge multiset); reversed pairs, sentinel v and symmetry checked on the implementation',
         'Coq proof (commuting appends; buffer invariant; permutation reindexing) + reversed-pair / sentinel correspondence', 'rounding makes the symmetry approximate in binary64 (oracle 1e-10)'),
 'C12': ('proof', 'factorize commutes with every injective relabelling, also across label types (C12_relabel), proved at the level of the whole entry point; implementation pairs under order-reversing/sparse/negative/string relabellings compared bit-for-bit',
         'Coq proof (relabelling invariant of the builder lifted to factorize) + relabelled-pair correspondence', 'only label equality is used by the model; ordering-dependence of std::map would surface as a correspondence mismatch'),
 'C13': ('proof', 'byte-level adjacency reader proved to invert every rendering of the documented grammar (unbounded); option block, selection table, call arguments and writers re-translated from multitensor.cpp on every run and proved canonical; the real binary is compared file-by-file with the library for all 8 flag combinations and all options',
         'Coq proof (parser round trip over bytes; finite tables over translated source) + real-binary vs library comparison', 'iostream extraction outside the grammar, operator<<(double) and the file system are modelled/abstract'),
 'C14': ('proof', 'affinity reader (token level) proved to write d_k exactly at (k,k,layer) and nothing else, to keep the vector length, and to reject every shape mismatch; start = cached file tensor + 0.1 x draw and the cache is never replaced (every realization restarts from the file) proved for every arithmetic; in-process reader and start states compared with the extracted model for K = 2..5, L = 1..4',
         'Coq proof (reader positions/rejection; initialiser cache) + in-process reader correspondence', 'iostream extraction of doubles is abstract (pre-parsed numeric tokens); Python loader: source text only'),
 'C15': ('proof', 'validate = Accept iff shape_consistent (unbounded over sizes, incl. the integer square root), error code <-> first failing check, error => no result / accept => never fails later -- proved; boundary sweep of the real entry point (outputs compared with prior contents after a throw) and the real binary on invalid configurations',
         'Coq proof (validation chain vs declarative predicate) + boundary-sweep correspondence + CLI exit/dir check', 'sizes < 2^52 assumed for sqrt on double'),
 'C16': ('other', 'PARTIAL by nature: index-range obligations (tensor positions, vertex indices, affinity-reader writes for all token contents, membership shape) are Coq theorems; everything else (use-after-free, leaks, wrap-around, boost/iostream internals) is explored only by running every component and malformed-file streams under ASan+UBSan+LSan with assertions',
         'Coq proof for index ranges + sanitizer exploration (not a proof) for the runtime half', 'the runtime half is exploration only; GCC -fsanitize=undefined excludes float-cast-overflow'),
 'C17': ('proof', 'exact stream consumption and positional layout of every initialiser, consecutive disjoint segments per realization, zero rows, symmetry and one draw per unordered pair (bijection) -- proved for every arithmetic; the driver\'s mt19937/uniform stream is compared with libstdc++ and start states with an independent reference stream',
         'Coq proof (stream threading through folds) + K-RNG/K-INIT correspondence', 'libstdc++ engine/distribution are trusted (the stream is an input of the model)'),
 'C18': ('proof', 'layout theorems (formula, range, bijection, transpose, flat affinity vector, writer positions) proved for all dimensions; the C++ index expressions are re-translated from the source on every run and the real accessors/writer are compared exhaustively (<= 6) with the extracted model',
         'Coq proof over regenerated index expressions + exhaustive model/implementation correspondence', 'Python reshape in multitensor.pyx is not executed (extension not built here)'),
 'C19': ('proof', 'over the table re-translated from multitensor.pyx on every run: for all 16 argument combinations exactly one block fires, with the expected instantiation, allocation of v and arguments; v is None unless directed; agreement with the command line table (finite: case analysis + vm_compute)',
         'Coq proof over the translated dispatch table (exhaustive, finite)', 'NO runtime correspondence: the Cython extension is not built here; the tie is the translator (self-tested by built-in mutations)'),
}
man = {
 'version': 1,
 'setup_cmd': 'tools/setup.sh',
 'hooks': {'guard': 'MULTITENSOR_VERIF',
           'enable': 'g++ -DMULTITENSOR_VERIF -I/repo/include -I/repo/applications/include (harness and CLI are compiled by the checks from /repo\'s working tree; cached by content hash under /verif/_build)',
           'baseline_off_cmd': 'cmake --build /repo/_build && ctest --test-dir /repo/_build -j8 --timeout 900',
           'source_commits': ['29b62a7'], 'add_only': True},
 'engines': [{'name': ENGINE, 'path': '/verif/check', 'serves_properties': sorted(CLAIMS),
              'kind_free_text': 'Coq 8.16.1 theorems about a hand-written executable Gallina model plus generated Gen*.v (translators over /repo); the extracted OCaml float model is compared bit-for-bit with the real C++ (sanitized, hooks on); per-property python oracles search the implementation for failing inputs'}],
 'checks': [], 'notes': 'see DESIGN.md; known findings and fixes: known_findings.txt', 'not_applicable': []}
for p in props:
    i = p['id']
    if i in CLAIMS:
        cat, text, tech, note = CLAIMS[i]
        man['checks'].append({'property_id': i, 'quick_cmd': './check %s --quick' % i, 'thorough_cmd': './check %s --thorough' % i,
                              'evidence_file': '/verif/evidence/%s.json' % i, 'replay_cmd_template': './check %s --replay {path}' % i,
                              'engine': ENGINE, 'level_claimed': {'category': cat, 'text': text, 'design_ref': 'DESIGN.md section 6, ' + i},
                              'level_note': note + '; ' + COMMON_NOTE, 'technique': tech})
    else:
        man['not_applicable'].append({'property_id': i, 'reason': 'check under construction in this round (model and theorems exist or are in progress; see DESIGN.md section 9); not claimed yet'})
json.dump(man, open(os.path.join(V, 'MANIFEST.json'), 'w'), indent=1)
print('claimed:', sorted(CLAIMS))
