#!/usr/bin/env python3
"""prints the markdown table of /verif/seeded/*/meta.json (which checks caught which seeded change)"""
import json, os, glob
V = os.path.dirname(os.path.dirname(os.path.abspath(__file__)))
rows = []
for d in sorted(glob.glob(os.path.join(V, 'seeded', '*'))):
    try:
        m = json.load(open(os.path.join(d, 'meta.json')))
    except Exception:
        continue
    v = m.get('validation', {})
    name = os.path.basename(d)
    first = {}
    for i, c in (v.get('checks') or {}).items():
        if c.get('exit'):
            first[i] = c.get('replay_kind') or '?'
    caught = ', '.join('%s%s' % (i, '' if k == 'failing-input' else '*') for i, k in sorted(first.items()))
    rows.append('| `%s` | %s | %s | %s | %s | %s |' % (name, m.get('property', '?'), (m.get('summary') or '').replace('\n', ' ').replace('|', '/')[:230],
                                                   (m.get('needs') or '').replace('\n', ' ').replace('|', '/')[:200],
                                                   'yes' if v.get('suite_passes') and v.get('demo_confirmed') else 'NO', caught or '**none**'))
print('| seed | breaks | change | needs | confirmed (suite passes, demo fails only with it) | caught by (quick tier; * = no-failing-input-found) |')
print('|---|---|---|---|---|---|')
print('\n'.join(rows))
