#!/usr/bin/env python3
"""tools/seed_table.py [--full]
Prints markdown tables from /verif/seeded/*/meta.json (seeded breaking changes: which checks caught them) and
/verif/refactors/*/validation.json (harmless refactorings: which checks alarmed).  --full: with the authors' descriptions
(written to seeded/README.md); default: the compact tables pasted into DESIGN.md section 10."""
import json, os, glob, sys
V = os.path.dirname(os.path.dirname(os.path.abspath(__file__)))
full = '--full' in sys.argv


def order(name):
    wave = {'seed2': 2, 'seed3': 3, 'seed4': 4, 'seed5': 5, 'seed6': 6, 'seed7': 7, 'seed8': 8}.get(name.split('_')[0], 1)
    return (name.split('_')[-1], wave)


rows = []
summary = {'n': 0, 'confirmed': 0, 'caught_by_target': 0, 'missed': []}
for d in sorted(glob.glob(os.path.join(V, 'seeded', '*')), key=lambda p: order(os.path.basename(p))):
    try:
        m = json.load(open(os.path.join(d, 'meta.json')))
    except Exception:
        continue
    v = m.get('validation', {})
    name = os.path.basename(d)
    target = m.get('property') or name.split('_')[-1]
    first = {}
    for i, c in (v.get('checks') or {}).items():
        if c.get('exit'):
            first[i] = c.get('replay_kind') or '?'
    caught = ', '.join('%s%s' % ('**%s**' % i if i == target else i, '' if k == 'failing-input' else '\\*') for i, k in sorted(first.items()))
    ok = bool(v.get('suite_passes') and v.get('demo_confirmed'))
    summary['n'] += 1
    summary['confirmed'] += ok
    if target in first:
        summary['caught_by_target'] += 1
    else:
        summary['missed'].append(name)
    if full:
        rows.append('| `%s` | %s | %s | %s | %s | %s |' % (name, target, (m.get('summary') or '').replace('\n', ' ').replace('|', '/')[:400],
                                                       (m.get('needs') or '').replace('\n', ' ').replace('|', '/')[:300], 'yes' if ok else 'NO', caught or '**none**'))
    else:
        rows.append('| `%s` | %s | %s | %s |' % (name, (m.get('summary') or '').replace('\n', ' ').replace('|', '/')[:110] + '…', 'yes' if ok else 'NO', caught or '**none**'))
if full:
    print('| seed | breaks | change (as described by its author) | needs | confirmed (suite passes, demonstration fails only with it) | caught by (quick tier; bold = the property it was written against; \\* = no-failing-input-found) |')
    print('|---|---|---|---|---|---|')
else:
    print('| seed | change | confirmed | caught by (bold = its property; \\* = no-failing-input-found) |')
    print('|---|---|---|---|')
print('\n'.join(rows))
print()
print('%d seeded changes, %d confirmed independently, %d caught by the check of the property they were written against%s.' % (
    summary['n'], summary['confirmed'], summary['caught_by_target'], ('; NOT caught by it: ' + ', '.join(summary['missed'])) if summary['missed'] else ''))
print()
rr = []
for d in sorted(glob.glob(os.path.join(V, 'refactors', '*')), key=lambda p: int(os.path.basename(p)[1:]) if os.path.basename(p)[1:].isdigit() else 0):
    try:
        v = json.load(open(os.path.join(d, 'validation.json')))
    except Exception:
        continue
    try:
        m = json.load(open(os.path.join(d, 'meta.json')))
    except Exception:
        m = {}
    al = v.get('alarms') or {}
    rr.append('| `%s` | %s | %s | %s |' % (os.path.basename(d), (m.get('area') or '')[:60], (m.get('summary') or '').replace('\n', ' ').replace('|', '/')[:(500 if full else 160)] + ('' if full else '…'),
                                     ', '.join(sorted(al)) or 'none'))
print('| refactoring | area | what was rewritten | checks that alarmed (all 19 run) |')
print('|---|---|---|---|')
print('\n'.join(rr))
