#!/usr/bin/env python3
import sys, os, time
sys.path.insert(0, os.path.join(os.path.dirname(os.path.abspath(__file__)), '..', 'lib'))
import vf, gen
n = int(sys.argv[1]) if len(sys.argv) > 1 else 200
t0 = time.time()
ok, msg = vf.translate(); print(msg)
ok, msg = vf.build_model(); print(ok, msg[-300:])
bdir, msg = vf.build_cxx('san'); print(bdir, msg[-300:])
print('build', time.time() - t0)
rng = vf.Rng(vf.seed())
for comp, g in (('graph', gen.gen_graph_random), ('upd', gen.gen_upd), ('e2e', gen.gen_e2e)):
    t0 = time.time()
    cases = [g(rng.fork('%s%d' % (comp, i)), i)[0] for i in range(n)]
    res = vf.run_both(bdir, cases, comp)
    print(comp, 'cases', res['n'], 'tokens', res['compared_tokens'], 'mismatches', len(res['mismatches']), 'crashes', len(res['crashes']), '%.1fs' % (time.time() - t0))
    for m in res['mismatches'][:3]:
        print('  ', m['key'], str(m.get('impl'))[:200], '|', str(m.get('model'))[:200]); print('   case:', m['case'][:300])
    for c in res['crashes'][:2]:
        print('  CRASH', c['rc'], (c['case'] or '')[:300]); print(c['output'][-1500:])
res = vf.run_both(bdir, gen.layout_cases(6), 'layout')
print('layout', res['n'], res['compared_tokens'], len(res['mismatches']), len(res['crashes']))
vf.cleanup_work()
