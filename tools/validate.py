#!/usr/bin/env python3
import json, sys, glob
try:
    import jsonschema
except ImportError:
    sys.exit('run with python3-vt')
jsonschema.validate(json.load(open('/verif/MANIFEST.json')), json.load(open('/root/.vp/MANIFEST.schema.json')))
es = json.load(open('/root/.vp/EVIDENCE.schema.json'))
for f in sorted(glob.glob('/verif/evidence/*.json')):
    jsonschema.validate(json.load(open(f)), es)
    print('ok', f)
print('manifest ok')
