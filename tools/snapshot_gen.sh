#!/bin/sh
# tools/snapshot_gen.sh -- regenerate coq/Gen*.v from /repo and store them as the committed reference copies (coq/ref/), the
# fallback model of the checks (lib/checklib.py: prove).  Run on the unchanged tree only, then commit.
cd "$(dirname "$0")/.." || exit 1
python3 tools/translate.py || exit 1
mkdir -p coq/ref && cp coq/Gen*.v coq/ref/ && ls coq/ref
