#!/usr/bin/env python3
"""tools/test_thresholds.py -- self-test of the threshold-exact correspondence cases: every comparison against EPS_PRECISION in
solver.hpp / graph.hpp (and the adoption comparison) is flipped between strict and non-strict, one at a time, in a scratch copy of
/repo; the threshold cases (K-UPD threshold families, K-GRAPH real weights at 1e-6, K-CTRL exact convergence pairs, K-SELECT ties)
must then disagree with the model.  Prints one line per mutant."""
import os, re, shutil, subprocess, sys, json
V = os.path.dirname(os.path.dirname(os.path.abspath(__file__)))

INNER = r'''
import sys, os, json
sys.path.insert(0, %(lib)r)
import vf, gen
bdir, _msg = vf.build_cxx()
rng = vf.Rng(7)
cases = []
for k in range(600):
    cases.append(gen.gen_upd_threshold(rng.fork('t%%d' %% k), k, family=gen.THRESHOLD_FAMILIES[k %% len(gen.THRESHOLD_FAMILIES)])[0])
res = vf.run_both(bdir, cases, 'thr')
out = {'upd_mismatches': len(res['mismatches']), 'upd_first': (res['mismatches'][0].get('key') if res['mismatches'] else None), 'crashes': len(res['crashes'])}
g = [gen.gen_graph_threshold(rng.fork('g%%d' %% k), k)[0] for k in range(60)]
res = vf.run_both(bdir, g, 'thrg')
out['graph_mismatches'] = len(res['mismatches'])
c = []
net = gen.gen_edges(rng.fork('net'), 'u', 'u', nmin=4, nmax=5, recmax=8)
for j, sc in enumerate(gen.conv_threshold_scripts(rng)):
    for nconv in (1, 2):
        c.append(gen.gen_e2e(rng.fork('c%%d' %% j), 5000 + 2 * j + nconv, variant=gen.VARIANTS[j %% 4], types=('u', 'u'), edges=net, K=2, r=1, maxit=45, nconv=nconv, seed=7, script=[sc], trace=1)[0])
res = vf.run_both(bdir, c, 'thrc', keys={'status', 'rep'})
out['ctrl_mismatches'] = len(res['mismatches'])
ties = []
for j in range(40):
    x = -10.0 - j
    scs = [[x, x, x], [x, x, x], [x - 1, x - 1, x - 1]]
    ties.append(gen.gen_e2e(rng.fork('s%%d' %% j), 6000 + j, variant=gen.VARIANTS[j %% 8], edges=net, types=('u', 'u'), K=2, r=3, maxit=15, nconv=9, seed=j, script=scs, trace=1)[0])
res = vf.run_both(bdir, ties, 'thrs')
out['select_mismatches'] = len(res['mismatches'])
print('RESULT ' + json.dumps(out))
'''


def main():
    files = ['include/multitensor/solver.hpp', 'include/multitensor/graph.hpp']
    sites = []
    for rel in files:
        src = open(os.path.join('/repo', rel)).read()
        for m in re.finditer(r'if\s*\((.*?)\s*(<=|>=|<|>)\s*(EPS_PRECISION_LIKELIHOOD|EPS_PRECISION)\s*\)', src):
            sites.append((rel, m.start(2), m.group(2), m.group(1).strip()[:40]))
        for m in re.finditer(r'if\s*\(\s*results\.max_L2\(\)\s*(<)\s*L2\s*\)', src):
            sites.append((rel, m.start(1), m.group(1), 'results.max_L2() < L2'))
    only = sys.argv[1:]
    for n, (rel, pos, op, lhs) in enumerate(sites):
        if only and str(n) not in only:
            continue
        scratch = '/tmp/thr_mut_%d' % n
        shutil.rmtree(scratch, ignore_errors=True)
        subprocess.run('mkdir -p %s && git -C /repo archive HEAD | tar -x -C %s' % (scratch, scratch), shell=True, check=True)
        p = os.path.join(scratch, rel)
        src = open(p).read()
        new = {'>': '>=', '<': '<=', '>=': '>', '<=': '<'}[op]
        src = src[:pos] + new + src[pos + len(op):]
        open(p, 'w').write(src)
        env = dict(os.environ, VERIF_REPO=scratch)
        pr = subprocess.run([sys.executable, '-c', INNER % {'lib': os.path.join(V, 'lib')}], env=env, stdout=subprocess.PIPE, stderr=subprocess.STDOUT)
        o = pr.stdout.decode()
        r = [l for l in o.splitlines() if l.startswith('RESULT ')]
        print('mutant %2d %-32s %-42s %s -> %s : %s' % (n, rel.split('/')[-1], lhs, op, new, r[0][7:] if r else 'FAILED ' + o[-300:].replace('\n', ' | ')))
        sys.stdout.flush()
        shutil.rmtree(scratch, ignore_errors=True)

main()
