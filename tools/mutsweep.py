#!/usr/bin/env python3
"""tools/mutsweep.py list                       -- enumerate the mechanical mutants of /repo's sources (one JSON line each)
   tools/mutsweep.py run <out dir> <i>/<n> [<sample size>]
                                                 -- worker i of n: for every mutant of its shard of the (deterministic) sample
A mechanical complement to the hand-written seeded changes (DESIGN 10): single-token mutations (arithmetic and relational operators,
compound assignments, && / ||, 0/1 constants, deleted statements, swapped index or role identifiers) of the library and front-end
sources, outside comments, string literals, diagnostics and the MULTITENSOR_VERIF hook blocks.  For each mutant that still compiles:
  1. the three checks most relevant to the mutated file are run against the mutated tree (VERIF_REPO); a VIOLATION ends the mutant
     (`caught`);
  2. otherwise the repository's own suite is built and run on it: a failing suite ends it (`killed-by-suite`: not a change the brief
     asks about);
  3. otherwise the remaining checks are run: `caught` or `survived`.
Survivors are listed for reading: each is either an equivalent mutant (same behaviour), a change of something no property speaks
about, or a gap in the checks.  Run from a scratch copy of /verif (the checks regenerate files in coq/), never from /verif itself."""
import hashlib, json, os, re, shutil, subprocess, sys, time
V = os.path.dirname(os.path.dirname(os.path.abspath(__file__)))
REPO = os.environ.get('MUTSWEEP_REPO', '/repo')
FILES = {
    'include/multitensor/solver.hpp': ['C02', 'C05', 'C04', 'C06', 'C09', 'C01', 'C10', 'C11', 'C03', 'C07'],
    'include/multitensor/graph.hpp': ['C08', 'C12', 'C11', 'C02', 'C09'],
    'include/multitensor/initialization.hpp': ['C17', 'C14', 'C07', 'C03'],
    'include/multitensor/main.hpp': ['C15', 'C03', 'C12', 'C07', 'C04', 'C18'],
    'include/multitensor/tensor.hpp': ['C18', 'C02', 'C10', 'C14'],
    'include/multitensor/utils.hpp': ['C07', 'C17', 'C04'],
    'include/multitensor/parameters.hpp': ['C05', 'C02', 'C17'],
    'include/multitensor/params.hpp': ['C05', 'C02', 'C17'],
    'applications/include/app_utils.hpp': ['C13', 'C16', 'C14', 'C18'],
    'applications/src/app_utils.cpp': ['C14', 'C13', 'C16', 'C18'],
    'applications/src/multitensor.cpp': ['C13', 'C19', 'C15', 'C14'],
}
ALL = ['C%02d' % i for i in range(1, 20)]
SWAPS = {'u': 'v', 'v': 'u', 'i': 'j', 'j': 'i', 'k': 'q', 'q': 'k', 'ul': 'vl', 'vl': 'ul', 'nrows': 'ncols', 'ncols': 'nrows',
         'u_list': 'v_list', 'v_list': 'u_list', 'source': 'target', 'target': 'source', 'in_edges': 'out_edges', 'out_edges': 'in_edges'}
TOKEN_RULES = [
    (r' \+ ', ' - '), (r' - ', ' + '), (r' \* ', ' / '), (r' / ', ' * '),
    (r' \+= ', ' -= '), (r' -= ', ' += '), (r' \*= ', ' /= '), (r' /= ', ' *= '), (r' \+= ', ' = '),
    (r' && ', ' || '), (r' \|\| ', ' && '),
    (r' < ', ' <= '), (r' <= ', ' < '), (r' > ', ' >= '), (r' >= ', ' > '), (r' == ', ' != '), (r' != ', ' == '),
    (r'\b0\b(?![.\d])', '1'), (r'(?<![.\d])\b1\b(?![.\d])', '0'), (r'(?<![.\d])\b1\b(?![.\d])', '2'),
    (r'\btrue\b', 'false'), (r'\bfalse\b', 'true'),
]
# numeric literals other than 0 and 1: an integer n becomes n + 1, a floating literal is scaled by 10 (1e-6 -> 1e-5, 0.1 -> 1.0, 100. -> 1000.)
CONST_RULES = [
    (r'(?<![\w.])([2-9]|[1-9]\d+)(?![\w.])', lambda m: str(int(m.group(1)) + 1)),
    (r'(?<![\w.])(\d+\.\d*(?:[eE][-+]?\d+)?|\d+[eE][-+]?\d+|\.\d+)(?![\w])', lambda m: repr(float(m.group(1)) * 10)),
]


def sh(cmd, timeout=None, env=None):
    try:
        p = subprocess.run(cmd, shell=True, stdout=subprocess.PIPE, stderr=subprocess.STDOUT, timeout=timeout, env=env)
        return p.returncode, p.stdout.decode('utf-8', 'replace')
    except subprocess.TimeoutExpired as e:
        return 124, (e.stdout or b'').decode('utf-8', 'replace') + '\n[timeout]'


def code_lines(path):
    """(line number, text) of the lines that may be mutated"""
    out = []
    in_hook = 0
    in_block_comment = False
    for n, line in enumerate(open(path, encoding='utf-8', errors='replace').read().split('\n')):
        s = line.strip()
        if in_block_comment:
            if '*/' in s:
                in_block_comment = False
            continue
        if s.startswith('/*'):
            if '*/' not in s:
                in_block_comment = True
            continue
        if s.startswith('#'):
            if re.match(r'#\s*if', s):
                if in_hook or 'MULTITENSOR_VERIF' in s:
                    in_hook += 1
            elif re.match(r'#\s*endif', s) and in_hook:
                in_hook -= 1
            continue
        if in_hook or not s or s.startswith('//') or s.startswith('*'):
            continue
        if '"' in s or 'cout' in s or 'printf' in s or 'cerr' in s or s.startswith('template') or s.startswith('using ') or s.startswith('typedef'):
            continue
        out.append((n, line))
    return out


def enumerate_mutants():
    muts = []
    for rel in FILES:
        path = os.path.join(REPO, rel)
        if not os.path.exists(path):
            continue
        for n, line in code_lines(path):
            code = line.split('//')[0]
            tail = line[len(code):]
            for pat, rep in TOKEN_RULES:
                for m in re.finditer(pat, code):
                    new = code[:m.start()] + rep + code[m.end():]
                    muts.append({'file': rel, 'line': n + 1, 'op': '%s -> %s' % (pat.replace('\\', ''), rep), 'old': line, 'new': new + tail})
            for pat, fn in CONST_RULES:
                for m in re.finditer(pat, code):
                    if 'std::get<' in code[max(0, m.start() - 9):m.start()]:
                        continue
                    new = code[:m.start()] + fn(m) + code[m.end():]
                    muts.append({'file': rel, 'line': n + 1, 'op': 'constant %s -> %s' % (m.group(0), fn(m)), 'old': line, 'new': new + tail})
            for m in re.finditer(r'\b[A-Za-z_]\w*\b', code):
                w = m.group(0)
                if w in SWAPS and not code.strip().startswith(('for (', 'while (')):     # (a swapped loop counter only makes the loop endless)
                    new = code[:m.start()] + SWAPS[w] + code[m.end():]
                    muts.append({'file': rel, 'line': n + 1, 'op': 'swap %s -> %s' % (w, SWAPS[w]), 'old': line, 'new': new + tail})
            s = code.strip()
            if s.endswith(';') and not s.startswith(('return', 'for', 'if', 'while', 'else', 'throw', 'case', 'default', 'break', 'using')) \
                    and (re.match(r'^[\w\.\(\)\[\], :<>\*&\->]+\s(=|\+=|-=|\*=|/=)\s[^=].*;$', s) or re.match(r'^[\w:\.\->]+(<[^;]*>)?\(.*\);$', s)) \
                    and not re.match(r'^(const |auto |size_t |double |int |bool |std::|typename |static |unsigned |long |float )', s) and s.count('(') == s.count(')'):
                muts.append({'file': rel, 'line': n + 1, 'op': 'delete statement', 'old': line, 'new': code[:len(code) - len(code.lstrip())] + ';' + tail})
            if s in ('continue;', 'break;'):
                muts.append({'file': rel, 'line': n + 1, 'op': 'delete %s' % s, 'old': line, 'new': code[:len(code) - len(code.lstrip())] + ';' + tail})
    for m in muts:
        m['id'] = hashlib.sha1(('%s:%d:%s:%s' % (m['file'], m['line'], m['op'], m['new'])).encode()).hexdigest()[:10]
    seen, out = set(), []
    for m in muts:
        if m['id'] not in seen and m['new'] != m['old']:
            seen.add(m['id'])
            out.append(m)
    return out


def run_check(copy, i, wt, tag):
    env = dict(os.environ, VERIF_REPO=wt, VERIF_EVIDENCE_DIR='/tmp/ms_ev_%s' % tag, VERIF_REPLAY_DIR='/tmp/ms_ev_%s' % tag)
    rc, o = sh('%s/check %s --quick' % (copy, i), timeout=2400, env=env)
    vl = [l for l in o.splitlines() if l.startswith('VIOLATION')]
    kind = None
    what = None
    if vl and 'replay=' in vl[0]:
        try:
            d = json.load(open(vl[0].split('replay=')[1].split()[0]))
            kind = d.get('kind')
            what = (d.get('what') or '; '.join(d.get('no_longer_checks', [])))[:300]
        except Exception:
            pass
    return {'exit': rc, 'violation': vl[0] if vl else None, 'kind': kind, 'what': what}


def summary(out_dir):
    """markdown summary of the worker logs of a finished sweep"""
    recs = []
    for f in sorted(os.listdir(out_dir)):
        if f.endswith('.jsonl'):
            recs += [json.loads(l) for l in open(os.path.join(out_dir, f)) if l.strip()]
    recs = list({r['id']: r for r in recs}.values())
    by = {}
    for r in recs:
        by.setdefault(r['verdict'], []).append(r)
    n = len(recs)
    print('%d mechanical mutants sampled (of %d enumerated): %s.' % (n, len(enumerate_mutants()), ', '.join('%d %s' % (len(v), k) for k, v in sorted(by.items()))))
    print()
    first = {}
    for r in by.get('caught', []):
        first[r['caught_by']] = first.get(r['caught_by'], 0) + 1
    print('Caught first by: ' + ', '.join('%s %d' % kv for kv in sorted(first.items())) + '.')
    print()
    print('| survivor | mutation | reading |')
    print('|---|---|---|')
    notes = {}
    try:
        notes = json.load(open(os.path.join(V, 'seeded', 'mechanical', 'survivor_notes.json')))
    except Exception:
        pass
    for r in sorted(by.get('survived', []), key=lambda r: (r['file'], r['line'])):
        print('| `%s:%d` | %s: `%s` | %s |' % (r['file'].split('/')[-1], r['line'], r['op'].replace('|', '/'), r['new'].strip().replace('|', '\\|')[:90], notes.get('%s:%d:%s' % (r['file'].split('/')[-1], r['line'], r['id']), notes.get('%s:%d' % (r['file'].split('/')[-1], r['line']), '?'))))


def main():
    if sys.argv[1] == 'summary':
        summary(sys.argv[2])
        return
    if sys.argv[1] == 'list':
        for m in enumerate_mutants():
            print(json.dumps(m))
        return
    out_dir, shard = sys.argv[2], sys.argv[3]
    i, n = [int(x) for x in shard.split('/')]
    sample = int(sys.argv[4]) if len(sys.argv) > 4 else 240
    only = os.environ.get('MUTSWEEP_ONLY', '')            # e.g. `constant`: only the mutants whose operator starts with this word
    muts = sorted([m for m in enumerate_mutants() if m['op'].startswith(only)], key=lambda m: hashlib.sha1(('s' + m['id']).encode()).hexdigest())[:sample]
    mine = [m for k, m in enumerate(muts) if k % n == i]
    os.makedirs(out_dir, exist_ok=True)
    log = os.path.join(out_dir, 'worker%s%d.jsonl' % (only, i))
    done = set()
    for f in os.listdir(out_dir):
        if f.endswith('.jsonl'):
            done |= {json.loads(l)['id'] for l in open(os.path.join(out_dir, f)) if l.strip()}
    copy = V
    for m in mine:
        if m['id'] in done:
            continue
        if os.path.exists(os.path.join(out_dir, 'stop')):
            break
        tag = 'w%s%d' % (only, i)
        wt = '/tmp/ms_wt_%s' % tag
        sh('git -C /repo worktree remove --force %s' % wt)
        shutil.rmtree(wt, ignore_errors=True)
        rc, o = sh('git -C /repo worktree add --detach %s HEAD' % wt)
        assert rc == 0, o
        rec = dict(m, started=time.strftime('%H:%M:%S'))
        try:
            p = os.path.join(wt, m['file'])
            lines = open(p, encoding='utf-8', errors='replace').read().split('\n')
            assert lines[m['line'] - 1] == m['old']
            lines[m['line'] - 1] = m['new']
            open(p, 'w', encoding='utf-8').write('\n'.join(lines))
            rc, o = sh('g++ -std=c++17 -fsyntax-only -w -I%s/include -I%s/applications/include %s/applications/src/multitensor.cpp %s/applications/src/app_utils.cpp' % (wt, wt, wt, wt), timeout=300)
            if rc != 0:
                rec['verdict'] = 'does-not-compile'
                continue
            first = FILES[m['file']][:3]
            rec['checks'] = {}
            caught = None
            for c in first:
                r = run_check(copy, c, wt, tag)
                rec['checks'][c] = r
                if r['exit'] != 0:
                    caught = c
                    break
            if caught:
                rec['verdict'] = 'caught'
                rec['caught_by'] = caught
                continue
            rc, o = sh('cmake -G Ninja -S %s -B %s/_b -DCMAKE_BUILD_TYPE=RelWithDebInfo > /dev/null 2>&1; cmake --build %s/_b 2>&1 | tail -3; ctest --test-dir %s/_b -j8 --timeout 600 2>&1 | tail -4' % (wt, wt, wt, wt), timeout=3600)
            shutil.rmtree(wt + '/_b', ignore_errors=True)
            rec['suite_passes'] = '100% tests passed' in o
            if not rec['suite_passes']:
                rec['verdict'] = 'killed-by-suite'
                rec['suite_tail'] = o[-200:]
                continue
            for c in FILES[m['file']][3:] + [c for c in ALL if c not in FILES[m['file']]]:
                r = run_check(copy, c, wt, tag)
                rec['checks'][c] = r
                if r['exit'] != 0:
                    caught = c
                    break
            rec['verdict'] = 'caught' if caught else 'survived'
            if caught:
                rec['caught_by'] = caught
        except Exception as e:
            rec['verdict'] = 'error'
            rec['error'] = repr(e)[:300]
        finally:
            rec['finished'] = time.strftime('%H:%M:%S')
            sh('git -C /repo worktree remove --force %s' % wt)
            shutil.rmtree(wt, ignore_errors=True)
            shutil.rmtree('/tmp/ms_ev_%s' % tag, ignore_errors=True)
            with open(log, 'a') as f:
                f.write(json.dumps(rec) + '\n')
    sh('cd %s && python3 tools/translate.py' % copy)


main()
