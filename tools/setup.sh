#!/bin/sh
# MANIFEST.setup_cmd: build the framework offline from files on disk only.
#  1 regenerate Gen*.v from /repo, full .vo build of the Coq development (no -vos), extraction
#  2 forbidden-vernacular grep
#  3 build the extracted model + OCaml driver
#  4 pre-build the sanitized harness and CLI for /repo's current tree (checks rebuild when the tree changes)
cd "$(dirname "$0")/.." || exit 1
set -e
python3 tools/translate.py
tools/mkcoq.sh
( cd coq && timeout 3000 make -k -j16 > ../_setup_coq.log 2>&1 ) || { tail -40 _setup_coq.log; echo "setup: coq build failed"; exit 1; }
python3 - <<'PY'
import sys, os
sys.path.insert(0, 'lib')
import vf
bad = vf.forbidden_vernac()
if bad:
    print('setup: forbidden vernacular:'); print('\n'.join(bad)); sys.exit(1)
ok, msg = vf.build_model()
print('model:', msg[-300:])
if not ok: sys.exit(1)
d, msg = vf.build_cxx('san')
print('harness:', d, msg[-300:])
if d is None: sys.exit(1)
PY
rm -f _setup_coq.log
echo "setup: ok"
