#!/usr/bin/env python3
"""tools/pyxsweep.py <out.jsonl> [<sample size>] [<processes>]
Mechanical mutants of run() in python/package/multitensor.pyx against the C19 machinery (the same path as the two built-in
self-test mutations of props/C19.py): the mutated text goes through the semantic translator T5 (tools/pyxsim.py via
translate.gen_pyx) into a scratch GenPyx.v, and the C19 proof chain is re-checked on it.  A mutant is `caught` when the
translator refuses the text or a proof no longer checks; `survived` otherwise (to be read by hand: equivalent, or a gap).
Nothing under /repo or /verif is written."""
import hashlib, json, multiprocessing, os, re, shutil, subprocess, sys, tempfile
V = os.path.dirname(os.path.dirname(os.path.abspath(__file__)))
REPO = os.environ.get('VERIF_REPO', '/repo')
SWAPS = [('undirectedS', 'bidirectionalS'), ('bidirectionalS', 'undirectedS'), ('SymmetricTensor', 'DiagonalTensor'), ('DiagonalTensor', 'SymmetricTensor'),
         ('numpy.float_t', 'numpy.int_t'), ('numpy.int_t', 'numpy.float_t'), ('edges_start', 'edges_end'), ('edges_end', 'edges_start'),
         ('c_u', 'c_v'), ('c_v', 'c_u'), ('nof_vertices', 'nof_groups'), ('nof_groups', 'nof_vertices'),
         ('nof_realizations', 'max_nof_iterations'), ('max_nof_iterations', 'nof_convergences'), ('nof_convergences', 'nof_realizations'),
         ('init_symmetric_tensor_random', 'init_symmetric_tensor_from_initial[SymmetricTensor[numpy.float_t]]'),
         (' and ', ' or '), (' not ', ' '), ('is float', 'is int'), ('is int', 'is float'), ('edges_weights', 'edges_start'),
         ('c_affinity', 'c_u'), ('labels', 'edges_start'), (' 0', ' 1'), (' 1', ' 0'), ('True', 'False'), ('False', 'True')]


def body_lines(src):
    lines = src.split('\n')
    start = next(i for i, l in enumerate(lines) if l.startswith('def run('))
    end = next((i for i in range(start + 1, len(lines)) if lines[i] and not lines[i][0].isspace() and not lines[i].startswith('#')), len(lines))
    return lines, start, end


def enumerate_mutants(src):
    lines, start, end = body_lines(src)
    muts = []
    for n in range(start, end):
        line = lines[n]
        s = line.strip()
        if not s or s.startswith('#') or s.startswith('"""') or s.startswith("'"):
            continue
        code = line.split('#')[0]
        for old, new in SWAPS:
            for m in re.finditer(re.escape(old), code):
                muts.append({'line': n + 1, 'op': '%s -> %s' % (old.strip(), new.strip() or '(dropped)'), 'new': code[:m.start()] + new + code[m.end():] + line[len(code):]})
        if re.match(r'^\s+[\w\.]+\(.*\)\s*(#.*)?$', line) or re.match(r'^\s+[\w\.]+\s*=\s*[^=].*$', line):
            muts.append({'line': n + 1, 'op': 'delete statement', 'new': line[:len(line) - len(line.lstrip())] + 'pass'})
    for m in muts:
        m['id'] = hashlib.sha1(('%d:%s:%s' % (m['line'], m['op'], m['new'])).encode()).hexdigest()[:10]
    return list({m['id']: m for m in muts}.values())


def judge(m):
    src = open(os.path.join(REPO, 'python/package/multitensor.pyx')).read()
    lines = src.split('\n')
    lines[m['line'] - 1] = m['new']
    wd = tempfile.mkdtemp(prefix='pyxsweep_')
    try:
        scratch = os.path.join(wd, 'repo')
        os.makedirs(os.path.join(scratch, 'python/package'))
        open(os.path.join(scratch, 'python/package/multitensor.pyx'), 'w').write('\n'.join(lines))
        cq = os.path.join(wd, 'coq')
        os.makedirs(cq)
        for f in ('GenCli.v', 'DispatchSpec.v', 'CliDispatchProofs.v', 'PyxDispatchProofs.v'):
            shutil.copy(os.path.join(V, 'coq', f), cq)
        code = ("import sys; sys.path.insert(0, %r); import translate; open(%r, 'w').write(translate.gen_pyx(%r))" % (os.path.join(V, 'tools'), os.path.join(cq, 'GenPyx.v'), scratch))
        p = subprocess.run(['python3', '-c', code], stdout=subprocess.PIPE, stderr=subprocess.STDOUT, timeout=300)
        if p.returncode != 0:
            return dict(m, verdict='caught', by='translator refuses the text', detail=p.stdout.decode('utf-8', 'replace')[-200:])
        for f in ('GenCli', 'GenPyx', 'DispatchSpec', 'CliDispatchProofs', 'PyxDispatchProofs'):
            p = subprocess.run(['coqc', '-Q', '.', 'MT', f + '.v'], cwd=cq, stdout=subprocess.PIPE, stderr=subprocess.STDOUT, timeout=600)
            if p.returncode != 0:
                return dict(m, verdict='caught', by='proof of %s.v no longer checks' % f)
        return dict(m, verdict='survived')
    except Exception as e:
        return dict(m, verdict='error', detail=repr(e)[:200])
    finally:
        shutil.rmtree(wd, ignore_errors=True)


def main():
    out = sys.argv[1]
    sample = int(sys.argv[2]) if len(sys.argv) > 2 else 120
    procs = int(sys.argv[3]) if len(sys.argv) > 3 else 4
    src = open(os.path.join(REPO, 'python/package/multitensor.pyx')).read()
    muts = sorted(enumerate_mutants(src), key=lambda m: hashlib.sha1(('s' + m['id']).encode()).hexdigest())
    print('%d mutants enumerated, %d sampled' % (len(muts), min(sample, len(muts))))
    with multiprocessing.Pool(procs) as pool, open(out, 'w') as f:
        for r in pool.imap_unordered(judge, muts[:sample]):
            f.write(json.dumps(r) + '\n')
            f.flush()


main()
