#!/bin/sh
# tools/mutant.sh <patch.diff> <id> [<id>...] : run checks against a scratch copy of /repo with the patch applied
# (nothing in /repo or /verif/evidence is touched)
P="$1"; shift
WT=/tmp/mt_wt_$$
rm -rf "$WT"; mkdir -p "$WT"
git -C /repo archive HEAD | tar -x -C "$WT"
( cd "$WT" && patch -p1 -s < "$P" ) || { echo "patch failed"; rm -rf "$WT"; exit 2; }
for id in "$@"; do
  VERIF_REPO="$WT" VERIF_EVIDENCE_DIR=/tmp/mt_ev_$$ VERIF_REPLAY_DIR=/tmp/mt_ev_$$ /verif/check "$id" --quick
  echo "exit=$?"
done
rm -rf "$WT" /tmp/mt_ev_$$
# restore generated files for the real tree
python3 /verif/tools/translate.py > /dev/null
