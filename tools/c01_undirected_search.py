#!/usr/bin/env python3-vt
"""tools/c01_undirected_search.py [seed]
NOT a check and not a proof: a numerical search behind the open part of C01 (DESIGN.md, "C01 in detail").  Undirected mode with a SYMMETRIC
affinity and no update skipped by a guard is the one case of C01 for which the development has neither a theorem nor a refutation.  This
script minimises  LL(after one sweep) - LL(before)  over memberships and symmetric affinities of small undirected multigraphs (N <= 5,
K = 2..3) with Nelder-Mead from many starts and over heavy-tailed random states (entries 1e-5 .. 1e3, nearly block-diagonal states
included).  Result on this image: the minimum found is 0 up to rounding (about -1e-14 absolute), attained at fixed points of the sweep; no
decreasing step.  What was tried towards a proof, so that nobody repeats it: writing the state as theta (column-normalised memberships)
and beta_kq = U_k w_kq U_q, the sweep is theta -> the exact joint M-step, beta -> T_theta1(D beta D) with D_k = (E-step row sum)_k /
(row sum of beta)_k and T the EM map of the concave affinity problem; neither the membership step alone (refuted: N = 1, K = 1,
u^2 w < edge count), nor Jensen's bound at the old state for the composed step, nor that bound with the best uniform rescaling (refuted
for nearly decoupled groups), nor the three-point inequality of the EM map with the full-EM point as comparison closes the argument."""
import sys
import numpy as np
from scipy.optimize import minimize


def LL(A, u, w):
    M = u @ w @ u.T
    return float(np.sum(A * np.log(M) - M))


def sweep(A, u, w):
    M = u @ w @ u.T
    u1 = u * ((A / M) @ (u @ w.T)) / (w @ u.sum(axis=0))
    M1 = u1 @ w @ u1.T
    S = u1.sum(axis=0)
    return u1, w * (u1.T @ (A / M1) @ u1) / np.outer(S, S)


def unpack(x, N, K):
    u = np.exp(x[:N * K]).reshape(N, K)
    w = np.zeros((K, K))
    w[np.triu_indices(K)] = np.exp(x[N * K:])
    return u, np.triu(w) + np.triu(w, 1).T


def delta(x, A, N, K):
    if np.any(np.abs(x) > 9):
        return 1e3
    u, w = unpack(x, N, K)
    u1, w1 = sweep(A, u, w)
    return LL(A, u1, w1) - LL(A, u, w)


def graph(rng):
    while True:
        N = int(rng.integers(1, 6))
        A = np.zeros((N, N))
        for i in range(N):
            for j in range(i, N):
                if rng.random() < rng.choice([0.3, 0.6, 0.9]):
                    m = int(rng.integers(1, 5))
                    A[i, j] += m
                    A[j, i] += m
        if not np.any(A.sum(axis=1) == 0):
            return N, A


def main():
    rng = np.random.default_rng(int(sys.argv[1]) if len(sys.argv) > 1 else 0)
    best = 0.0
    for trial in range(40):
        N, A = graph(rng)
        K = int(rng.integers(2, 4))
        for _ in range(4):
            x0 = rng.normal(0, 2.0, N * K + K * (K + 1) // 2)
            r = minimize(delta, x0, args=(A, N, K), method='Nelder-Mead', options={'maxiter': 5000, 'xatol': 1e-10, 'fatol': 1e-15})
            best = min(best, r.fun)
    worst_rel = float('inf')
    for trial in range(40000):
        N, A = graph(rng)
        K = int(rng.integers(2, 4))
        sc = rng.choice([0.5, 2, 4])
        u = np.exp(rng.normal(0, sc, (N, K)))
        w = np.exp(rng.normal(0, sc, (K, K)))
        w = np.triu(w) + np.triu(w, 1).T
        if rng.random() < 0.3:
            w = w * np.where(np.eye(K) > 0, 1, 1e-5)
        if rng.random() < 0.3:
            mask = np.full((N, K), 1e-5)
            for i in range(N):
                mask[i, i % K] = 1
            u = u * mask
        u1, w1 = sweep(A, u, w)
        d = LL(A, u1, w1) - LL(A, u, w)
        worst_rel = min(worst_rel, d / A.sum())
    print('Nelder-Mead: smallest (LL after - LL before) found = %.3e' % best)
    print('random heavy-tailed states: smallest (LL after - LL before) / edge count = %.3e' % worst_rel)


main()
