#!/usr/bin/env python3
"""tools/validate_refactor.py <dir with patch.diff (behaviour-preserving change)> [<check ids>...]
Applies the patch to a scratch worktree of /repo HEAD, builds, runs the unedited suite, then runs the given checks (default: all)
against the patched tree through VERIF_REPO.  A check that alarms here alarms on code where the property still holds.
Stores the matrix under /verif/refactors/<name>/."""
import json, os, shutil, subprocess, sys, time
V = os.path.dirname(os.path.dirname(os.path.abspath(__file__)))
ALL = ['C%02d' % i for i in range(1, 20)]


def sh(cmd, **kw):
    p = subprocess.run(cmd, shell=True, stdout=subprocess.PIPE, stderr=subprocess.STDOUT, **kw)
    return p.returncode, p.stdout.decode('utf-8', 'replace')


def main():
    src = sys.argv[1].rstrip('/')
    name = os.path.basename(src).replace('refactor_', '')
    ids = sys.argv[2:] or ALL
    wt = '/tmp/vr_wt_%s' % name
    sh('git -C /repo worktree remove --force %s' % wt)
    shutil.rmtree(wt, ignore_errors=True)
    rc, out = sh('git -C /repo worktree add %s HEAD' % wt)
    assert rc == 0, out
    result = {'name': name, 'when': time.strftime('%Y-%m-%d %H:%M')}
    try:
        rc, out = sh('git -C %s apply %s/patch.diff' % (wt, src))
        result['patch_applies'] = rc == 0
        if rc != 0:
            result['apply_output'] = out[-800:]
            return result
        sh('cmake -G Ninja -S %s -B %s/_b -DCMAKE_BUILD_TYPE=RelWithDebInfo > /dev/null 2>&1; cmake --build %s/_b 2>&1 | tail -3' % (wt, wt, wt))
        rc2, out2 = sh('ctest --test-dir %s/_b -j8 --timeout 900 2>&1 | tail -4' % wt)
        result['suite_passes'] = ('100% tests passed' in out2)
        shutil.rmtree(wt + '/_b', ignore_errors=True)
        env = dict(os.environ, VERIF_REPO=wt, VERIF_EVIDENCE_DIR='/tmp/vr_ev_%s' % name, VERIF_REPLAY_DIR='/tmp/vr_ev_%s' % name)
        alarms = {}
        for i in ids:
            p = subprocess.run([os.path.join(V, 'check'), i, '--quick'], stdout=subprocess.PIPE, stderr=subprocess.STDOUT, env=env)
            o = p.stdout.decode('utf-8', 'replace')
            vl = [l for l in o.splitlines() if l.startswith('VIOLATION')]
            if p.returncode != 0 or vl:
                a = {'exit': p.returncode, 'violation_line': vl[0] if vl else None,
                     'broken': [l.strip()[:300] for l in o.splitlines() if l.strip().startswith('broken:')][:3]}
                if vl and 'replay=' in vl[0]:
                    rp = vl[0].split('replay=')[1].split()[0]
                    try:
                        d = json.load(open(rp))
                        a['replay_kind'] = d.get('kind')
                        a['replay_what'] = (d.get('what') or '; '.join(d.get('no_longer_checks', [])))[:500]
                    except Exception:
                        pass
                alarms[i] = a
        result['alarms'] = alarms
        result['false_alarms'] = sorted(alarms)
    finally:
        sh('git -C /repo worktree remove --force %s' % wt)
        shutil.rmtree(wt, ignore_errors=True)
        shutil.rmtree('/tmp/vr_ev_%s' % name, ignore_errors=True)
        sh('python3 %s/tools/translate.py' % V)
    dst = os.path.join(V, 'refactors', name)
    os.makedirs(dst, exist_ok=True)
    for f in ('patch.diff', 'meta.json'):
        if os.path.exists(os.path.join(src, f)) and os.path.abspath(src) != os.path.abspath(dst):
            shutil.copy(os.path.join(src, f), os.path.join(dst, f))
    json.dump(result, open(os.path.join(dst, 'validation.json'), 'w'), indent=1)
    print(json.dumps({k: result.get(k) for k in ('name', 'patch_applies', 'suite_passes', 'false_alarms')}))

main()
