#!/bin/sh
# (re)generate coq/_CoqProject's file list and the Makefile
cd "$(dirname "$0")/../coq" || exit 1
{ echo "-Q . MT"; echo "-arg -w -arg -notation-overridden,-deprecated-hint-without-locality,-deprecated-instance-without-locality,-require-in-module,-deprecated-syntactic-definition"; ls *.v | grep -v '^Properties_\|^Extract.v$' ; ls Properties_*.v 2>/dev/null; echo Extract.v; } > _CoqProject
coq_makefile -f _CoqProject -o Makefile > /dev/null
