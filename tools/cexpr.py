"""Tiny parser for C integer arithmetic expressions (identifiers, literals, + - * / %, parentheses)
   -> Gallina text over nat.  Used by the translators for index expressions."""
import re

TOK = re.compile(r'\s*(?:(\d+)|([A-Za-z_][A-Za-z_0-9]*)|(.))')

def tokenize(s):
    out = []
    pos = 0
    s = s.strip()
    while pos < len(s):
        m = TOK.match(s, pos)
        if not m:
            raise ValueError('cannot tokenize %r at %d' % (s, pos))
        pos = m.end()
        if m.group(1):
            out.append(('num', m.group(1)))
        elif m.group(2):
            out.append(('id', m.group(2)))
        else:
            out.append(('op', m.group(3)))
    return out

class P:
    def __init__(self, toks):
        self.t = toks
        self.i = 0
    def peek(self):
        return self.t[self.i] if self.i < len(self.t) else ('eof', '')
    def eat(self):
        x = self.peek()
        self.i += 1
        return x
    def expr(self):
        e = self.term()
        while self.peek() in (('op', '+'), ('op', '-')):
            op = self.eat()[1]
            r = self.term()
            e = (op, e, r)
        return e
    def term(self):
        e = self.atom()
        while self.peek() in (('op', '*'), ('op', '/'), ('op', '%')):
            op = self.eat()[1]
            r = self.atom()
            e = (op, e, r)
        return e
    def atom(self):
        k, v = self.eat()
        if k == 'num':
            return ('num', v)
        if k == 'id':
            return ('id', v)
        if (k, v) == ('op', '('):
            e = self.expr()
            if self.eat() != ('op', ')'):
                raise ValueError('expected )')
            return e
        raise ValueError('unexpected token %r' % (v,))

def parse(s):
    p = P(tokenize(s))
    e = p.expr()
    if p.peek()[0] != 'eof':
        raise ValueError('trailing tokens in %r' % s)
    return e

def to_gallina(e, rename=None):
    rename = rename or {}
    k = e[0]
    if k == 'num':
        return e[1]
    if k == 'id':
        return rename.get(e[1], e[1])
    a = to_gallina(e[1], rename)
    b = to_gallina(e[2], rename)
    op = {'+': '+', '-': '-', '*': '*', '/': '/', '%': 'mod'}[k]
    return '(%s %s %s)' % (a, op, b)

def idents(e):
    if e[0] == 'id':
        return {e[1]}
    if e[0] == 'num':
        return set()
    return idents(e[1]) | idents(e[2])

def evaluate(e, env):
    k = e[0]
    if k == 'num':
        return int(e[1])
    if k == 'id':
        return env[e[1]]
    a = evaluate(e[1], env); b = evaluate(e[2], env)
    return {'+': a + b, '-': max(a - b, 0), '*': a * b, '/': a // b if b else 0, '%': a % b if b else a}[k]
