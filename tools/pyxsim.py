#!/usr/bin/env python3
"""pyxsim.py -- translator T5 (semantic): the body of `run()` in python/package/multitensor.pyx is turned into plain Python
(Cython-only syntax removed: cdef declarations, `<type> expr` casts, `new`, NULL) and EXECUTED once for each of the 16
combinations of (weight type, directed, assortative, initial-affinity file) against recording stand-ins for numpy, the C++
containers and `c_multitensor_factorization[...]`.  What is recorded per combination: every library call (the five template
arguments; for each positional argument WHAT it is, recognised by value: which column of the adjacency data, which scalar,
the shape of the matrices at the moment of the call, the contents of the affinity vector, the generator's seed), and what
run() returns (v is None or not, u / v / affinity laid out as the library's result).  Independent of how the dispatch is
spelled (16 ifs, an elif chain, a computed case number, hoisted resize, ...)."""
import re

ADJ = [[0, 1, 1, 0], [1, 2, 0, 2], [2, 3, 1, 1], [3, 0, 2, 0], [0, 2, 1, 1], [4, 1, 1, 0], [2, 5, 0, 1], [6, 4, 1, 1]]      # 8 records, 2 layers, 7 vertices: 6 is only a source, 5 only a target
WFILE = [[0, 0.125, 0.25, 0.375], [1, 0.5, 0.625, 0.75]]                          # layer, d_1..d_K   (K = 3, L = 2)
N, K, L = 7, 3, 2
NREAL, MAXIT, NCONV, SEED = 7, 11, 13, 12345


class SimError(Exception):
    pass


class Arr:
    """a very small numpy.ndarray: 1-D or 2-D, row-major python lists"""

    def __init__(self, data):
        self.d = data

    @property
    def ndim(self):
        return 2 if self.d and isinstance(self.d[0], list) else 1

    @property
    def size(self):
        return sum(len(r) for r in self.d) if self.ndim == 2 else len(self.d)

    @property
    def shape(self):
        return (len(self.d), len(self.d[0])) if self.ndim == 2 else (len(self.d),)

    def __len__(self):
        return len(self.d)

    def __iter__(self):
        for r in self.d:
            yield Arr(r) if isinstance(r, list) else r

    def __getitem__(self, ix):
        if isinstance(ix, tuple):
            rs, cs = ix
            rows = self.d[rs] if isinstance(rs, slice) else [self.d[rs]]
            out = [r[cs] for r in rows]
            if not isinstance(rs, slice):
                out = out[0]
            return Arr(out) if isinstance(out, list) else out
        r = self.d[ix]
        return Arr(r) if isinstance(r, list) else r

    def astype(self, t):
        f = {int: int, float: float}.get(t)
        if f is None:
            f = float if 'float' in str(t) else int if 'int' in str(t) else None
        if f is None:
            raise SimError('astype(%r)' % (t,))
        return Arr([[f(x) for x in r] for r in self.d] if self.ndim == 2 else [f(x) for x in self.d])

    def ravel(self):
        return Arr([x for r in self.d for x in r] if self.ndim == 2 else list(self.d))

    flatten = ravel

    def reshape(self, *shape):
        if len(shape) == 1 and isinstance(shape[0], (tuple, list)):
            shape = tuple(shape[0])
        flat = self.ravel().d
        if len(shape) == 1:
            return Arr(flat)
        r, c = shape
        if c == -1:
            c = len(flat) // r
        if r == -1:
            r = len(flat) // c
        if r * c != len(flat):
            raise SimError('reshape')
        return Arr([flat[i * c:(i + 1) * c] for i in range(r)])

    @property
    def T(self):
        if self.ndim == 1:
            return self
        return Arr([list(col) for col in zip(*self.d)])

    def transpose(self):
        return self.T

    def tolist(self):
        return [list(r) for r in self.d] if self.ndim == 2 else list(self.d)

    def copy(self):
        return Arr(self.tolist())


def tolist(x):
    if isinstance(x, Arr):
        return x.tolist()
    if isinstance(x, Vec):
        return list(x.d)
    if isinstance(x, (list, tuple)):
        return [tolist(y) for y in x]
    return x


class TName:
    """a C++ / Cython type or template name; indexing builds the instantiated name"""

    def __init__(self, name, world=None):
        self.name = name
        self.world = world

    def __getitem__(self, params):
        if not isinstance(params, tuple):
            params = (params,)
        return TName('%s[%s]' % (self.name, ', '.join(tname(p) for p in params)), self.world)

    def __call__(self, *args):
        base = self.name.split('[')[0]
        if base == 'vector':
            if len(args) == 0:
                return Vec([], self.name)
            if len(args) == 1 and isinstance(args[0], int):
                return Vec([0] * args[0], self.name)
            return Vec(list(tolist(args[0])), self.name)
        if base == 'Matrix':
            return Mat(*(args or (0, 0)))
        if base == 'RandomGenerator':
            return Rng(self.name, args)
        if base == 'get_num_vertices':
            s, e = (tolist(a) for a in args)
            return len(set(s) | set(e))
        if base == 'c_multitensor_factorization':
            return self.world.library_call(self.name, args)
        raise SimError('call of %s' % self.name)

    def __repr__(self):
        return self.name


def tname(p):
    if isinstance(p, TName):
        return p.name
    if p is int:
        return 'int'
    if p is float:
        return 'float'
    return str(p)


class Vec:
    def __init__(self, d, tname_='vector'):
        self.d = d
        self.tname = tname_

    def __len__(self):
        return len(self.d)

    def __getitem__(self, i):
        return self.d[i]

    def __setitem__(self, i, x):
        self.d[i] = x

    def __iter__(self):
        return iter(self.d)

    def size(self):
        return len(self.d)


class Mat:
    def __init__(self, r=0, c=0):
        self.r, self.c = r, c
        self.fill = None

    def resize(self, r, c):
        self.r, self.c = r, c

    def get_nrows(self):
        return self.r

    def get_ncols(self):
        return self.c

    def __call__(self, i, j):
        if not (0 <= i < self.r and 0 <= j < self.c):
            raise SimError('matrix access out of range')
        return self.fill + i * 10 + j


class Rng:
    def __init__(self, name, args):
        self.name, self.args = name, args


class Cast:
    def __init__(self, typ, obj):
        self.typ, self.obj = typ, obj


def do_cast(typ, obj):
    """< type > expr : a conversion to a C++ vector copies the values; to an integer type converts; anything else is kept as is"""
    t = re.sub(r'\s+', ' ', typ.replace('const', '').replace('&', '')).strip()
    if t.startswith('vector['):
        vals = tolist(obj)
        if vals and isinstance(vals[0], list):
            raise SimError('cast of a 2-D array to a vector')
        v = Vec(list(vals), 'vector')
        v.via = t
        v.src = obj
        return v
    if t in ('size_t', 'int', 'long', 'unsigned int'):
        return int(obj)
    return Cast(typ, obj)


class Report:
    pass


class ReportWrapper:
    c_obj = None


class NumpyMock:
    float_t = TName('numpy.float_t')
    int_t = TName('numpy.int_t')
    float64 = float
    int64 = int

    def __init__(self, files):
        self.files = files

    def loadtxt(self, fn, *a, **k):
        if fn not in self.files:
            raise SimError('loadtxt(%r)' % (fn,))
        return Arr([[float(x) for x in r] for r in self.files[fn]])

    def array(self, x, *a, **k):
        return Arr(tolist(x))

    asarray = array

    def diag(self, l):
        l = tolist(l)
        n = len(l)
        return Arr([[l[i] if i == j else 0.0 for j in range(n)] for i in range(n)])

    def concatenate(self, xs, *a, **k):
        out = []
        for x in xs:
            out += tolist(x.ravel() if isinstance(x, Arr) else x)
        return Arr(out)

    def zeros(self, n, *a, **k):
        if isinstance(n, (tuple, list)):
            return Arr([[0.0] * n[1] for _ in range(n[0])])
        return Arr([0.0] * n)

    def ravel(self, x):
        return x.ravel()


class World:
    def __init__(self):
        self.calls = []

    def library_call(self, name, args):
        m = re.match(r'c_multitensor_factorization\[(.*)\]$', name)
        targs = split_top(m.group(1))
        desc = [self.describe(a) for a in args]
        self.calls.append((targs, desc))
        # the library writes its results into labels, u, v, affinity
        objs = [a.obj if isinstance(a, Cast) else a for a in args]
        vecs = [o for o in objs if isinstance(o, Vec)]
        mats = [o for o in objs if isinstance(o, Mat)]
        if len(args) == 11:
            labels, u, v, aff = objs[6], objs[7], objs[8], objs[9]
            if isinstance(labels, Vec):
                labels.d[:] = [50 + i for i in range(len(labels.d))]
            if isinstance(u, Mat):
                u.fill = 100
            if isinstance(v, Mat):
                v.fill = 200
            if isinstance(aff, Vec):
                aff.d[:] = [1000 + p for p in range(len(aff.d))]
        rep = Report()
        rep.tag = 'library report'
        return rep

    @staticmethod
    def adjacency_role(a):
        l = a.tolist()
        ints = all(isinstance(x, int) for x in l) if a.ndim == 1 else False
        kind = 'int' if ints else 'float'
        if l == [r[0] for r in ADJ]:
            return 'adjacency column 0 (%s)' % kind
        if l == [r[1] for r in ADJ]:
            return 'adjacency column 1 (%s)' % kind
        if l == [x for r in ADJ for x in r[2:]]:
            return 'adjacency weight columns, record by record (%s)' % kind
        return None

    def describe(self, a):
        via = ''
        if isinstance(a, Cast):
            via = ' via ' + re.sub(r'\s+', ' ', a.typ.replace('const', '').replace('&', '')).strip()
            a = a.obj
        if isinstance(a, Arr):
            return (self.adjacency_role(a) or 'unrecognised array %r' % (a.tolist(),)) + via
        if isinstance(a, Vec) and getattr(a, 'via', None) and isinstance(getattr(a, 'src', None), Arr) and a.src.tolist() == list(a.d) \
                and self.adjacency_role(a.src):
            return self.adjacency_role(a.src) + ' via ' + a.via
        if isinstance(a, Vec):
            via = via or (' via ' + a.via if getattr(a, 'via', None) else '')
            l = list(a.d)
            diag = [x for r in WFILE for x in r[1:]]
            emb = [(r[1:][i] if i == j else 0.0) for r in WFILE for i in range(K) for j in range(K)]
            what = None
            if l == diag:
                what = 'affinity file: the K values of each layer'
            elif l == emb:
                what = 'affinity file: each layer as a K x K diagonal block'
            elif all(x == 0 for x in l):
                what = {N: 'nof_vertices', K * L: 'nof_groups*nof_layers', K * K * L: 'nof_groups*nof_groups*nof_layers'}.get(len(l), str(len(l)))
                what = 'zero vector of size ' + what
            else:
                what = 'unrecognised vector %r' % (l,)
            return '%s%s%s' % (what, ' : ' + a.tname if a.tname != 'vector' else '', via)
        if isinstance(a, Mat):
            dims = {(N, K): 'nof_vertices x nof_groups', (0, 0): '0 x 0', (K, N): 'nof_groups x nof_vertices'}.get((a.r, a.c), '%d x %d' % (a.r, a.c))
            return 'matrix %s%s' % (dims, via)
        if isinstance(a, Rng):
            args = ', '.join('seed' if x == SEED else repr(x) for x in a.args)
            return '%s(%s)%s' % (a.name, args, via)
        if isinstance(a, int) and not isinstance(a, bool):
            return {NREAL: 'nof_realizations', MAXIT: 'max_nof_iterations', NCONV: 'nof_convergences'}.get(a, 'integer %d' % a) + via
        return 'unrecognised %r%s' % (a, via)


def split_top(s):
    out, depth, cur = [], 0, ''
    for ch in s:
        if ch in '[(<':
            depth += 1
        elif ch in '])>':
            depth -= 1
        if ch == ',' and depth == 0:
            out.append(cur.strip())
            cur = ''
        else:
            cur += ch
    if cur.strip():
        out.append(cur.strip())
    return out


def to_python(src):
    """the text of def run(...) as executable Python"""
    m = re.search(r'^def run\(', src, re.M)
    if not m:
        raise SimError('def run( not found')
    rest = src[m.start():]
    nl = rest.index('\n') + 1
    m2 = re.search(r'^(?=\S)', rest[nl:], re.M)
    body = rest if not m2 else rest[:nl + m2.start()]
    body = body.replace('\\\n', ' ')
    lines = []
    for line in body.split('\n'):
        mm = re.match(r'^(\s*)cdef\s+(.*)$', line)
        if mm:
            ind, decl = mm.group(1), mm.group(2)
            if '=' in decl:
                left, right = decl.split('=', 1)
                name = re.findall(r'[A-Za-z_]\w*', left)[-1]
                line = '%s%s = %s' % (ind, name, right.strip())
            else:
                name = re.findall(r'[A-Za-z_]\w*', decl)[-1]
                line = '%s%s = None' % (ind, name)
        lines.append(line)
    text = '\n'.join(lines)
    # casts  < type > operand   (only where an expression starts: after ( , = [ or `return`)
    cast = re.compile(r'(?P<pre>[(,=\[]\s*|return\s+)<\s*(?P<t>[\w\s\.\[\],&\*:]+?)\s*>\s*(?P<op>[A-Za-z_][\w\.]*)')
    prev = None
    while prev != text:
        prev = text
        text = cast.sub(lambda q: '%sCAST(%r, %s)' % (q.group('pre'), re.sub(r'\s+', ' ', q.group('t')), q.group('op')), text)
    text = re.sub(r'\bnew\s+', '', text)
    text = re.sub(r'\bNULL\b', 'None', text)
    return text


def simulate(src):
    """-> list of 16 behaviour dicts in canonical order (wint, directed, assort, file)"""
    code = to_python(src)
    try:
        compiled = compile(code, 'multitensor.pyx:run', 'exec')
    except SyntaxError as e:
        raise SimError('run() is not executable after removing the Cython syntax: %s (line %s)' % (e.msg, e.lineno))
    rows = []
    for wint in (True, False):
        for file in (False, True):
            for assort in (False, True):
                for directed in (False, True):
                    world = World()
                    ns = {'numpy': NumpyMock({'ADJ': ADJ, 'WF': WFILE}), 'time': lambda *_: 999, 'deref': lambda x: x,
                          'CAST': do_cast, 'ReportWrapper': ReportWrapper, 'logging': None}
                    for nm in ('vector', 'Matrix', 'get_num_vertices', 'RandomGenerator', 'mt19937', 'uniform_real_distribution', 'vertex_t',
                               'undirectedS', 'bidirectionalS', 'directedS', 'SymmetricTensor', 'DiagonalTensor', 'init_symmetric_tensor_random',
                               'init_symmetric_tensor_from_initial', 'c_multitensor_factorization', 'string', 'size_t', 'time_t'):
                        ns[nm] = TName(nm, world)
                    try:
                        exec(compiled, ns)
                        ret = ns['run']('ADJ', K, directed=directed, assortative=assort, nof_realizations=NREAL, max_nof_iterations=MAXIT,
                                        nof_convergences=NCONV, init_affinity_filename=('WF' if file else None),
                                        weigths_dtype=(int if wint else float), seed=SEED)
                    except SimError:
                        raise
                    except Exception as e:
                        raise SimError('run() failed under simulation for wint=%s directed=%s assortative=%s file=%s: %s: %s' % (
                            wint, directed, assort, file, type(e).__name__, e))
                    if not (isinstance(ret, tuple) and len(ret) == 4):
                        raise SimError('run() does not return a 4-tuple')
                    u, v, aff, rep = ret
                    exp_u = [[50 + i] + [100 + i * 10 + j for j in range(K)] for i in range(N)]
                    exp_v = [[50 + i] + [200 + i * 10 + j for j in range(K)] for i in range(N)]
                    per = K if assort else K * K
                    if assort:
                        exp_aff = [[1000 + k + a * K for k in range(K)] for a in range(L)]
                    else:
                        exp_aff = [[[1000 + k + q * K + a * K * K for q in range(K)] for k in range(K)] for a in range(L)]
                    rows.append({'wint': wint, 'directed': directed, 'assort': assort, 'file': file, 'calls': world.calls,
                                 'v_none': v is None, 'u_ok': tolist(u) == exp_u, 'v_ok': (v is None) or tolist(v) == exp_v,
                                 'aff_ok': tolist(aff) == exp_aff,
                                 'report_ok': isinstance(rep, ReportWrapper) and getattr(getattr(rep, 'c_obj', None), 'tag', None) == 'library report'})
    # what run() does with the arguments a caller may leave out: directed, non-assortative, random start, float weights ... and the clock as the seed
    world = World()
    ns = {'numpy': NumpyMock({'ADJ': ADJ, 'WF': WFILE}), 'time': lambda *_: 999, 'deref': lambda x: x, 'CAST': do_cast, 'ReportWrapper': ReportWrapper, 'logging': None}
    for nm in ('vector', 'Matrix', 'get_num_vertices', 'RandomGenerator', 'mt19937', 'uniform_real_distribution', 'vertex_t',
               'undirectedS', 'bidirectionalS', 'directedS', 'SymmetricTensor', 'DiagonalTensor', 'init_symmetric_tensor_random',
               'init_symmetric_tensor_from_initial', 'c_multitensor_factorization', 'string', 'size_t', 'time_t'):
        ns[nm] = TName(nm, world)
    try:
        exec(compiled, ns)
        ret = ns['run']('ADJ', K)
    except SimError:
        raise
    except Exception as e:
        raise SimError('run(adjacency, K) with every other argument left out failed under simulation: %s: %s' % (type(e).__name__, e))
    ref = next(r for r in rows if r['directed'] and not r['assort'] and not r['file'] and not r['wint'])
    if len(world.calls) != 1 or world.calls[0][0] != ref['calls'][0][0] or (ret[1] is None):
        raise SimError('run(adjacency, K) with every other argument left out does not run the directed, non-assortative, random-start, real-weight variant: %s' % ([c[0] for c in world.calls],))
    a_ref, a_def = ref['calls'][0][1], world.calls[0][1]
    if [x for i, x in enumerate(a_def) if i not in (3, 4, 5, 10)] != [x for i, x in enumerate(a_ref) if i not in (3, 4, 5, 10)]:
        raise SimError('run(adjacency, K) with every other argument left out passes other data to the library than the explicit call: %s vs %s' % (a_def, a_ref))
    if '999' not in str(a_def[10]):
        raise SimError('run() without a seed does not seed the generator from the clock: %s' % (a_def[10],))
    return rows


if __name__ == '__main__':
    import sys, json
    print(json.dumps(simulate(open(sys.argv[1]).read()), indent=1))
