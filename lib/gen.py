"""gen.py -- case generators (DESIGN.md 4.3).  Every case is one self-contained text line that both the
C++ harness and the extracted model read; all randomness comes from a vf.Rng."""
import itertools, math
from vf import Rng, fhex

EPS = 1e-6


def ulp_step(x, n):
    import struct
    b = struct.unpack('>q', struct.pack('>d', x))[0]
    return struct.unpack('>d', struct.pack('>q', b + n))[0]


# ----------------------------------------------------------------------------- labels
def make_labels(rng, n, ltype):
    """n distinct labels of the given type: 'u' size_t, 'i' long (negative allowed), 's' string"""
    out = []
    seen = set()
    while len(out) < n:
        if ltype == 'u':
            x = str(rng.choice([rng.below(10), rng.below(1000), rng.below(1 << 40)]))
        elif ltype == 'i':
            x = str(rng.choice([rng.rint(-9, 9), rng.rint(-1000, 1000), rng.rint(-(1 << 40), 1 << 40)]))
        else:
            x = rng.choice(['v', 'node', 'Z', 'a', 'x_']) + str(rng.below(500)) + rng.choice(['', 'b', '-q', '.7'])
        if ltype == 's' and rng.chance(0.08):
            x = '\\e'                      # the EMPTY string (spelled \e in a case line; the smallest std::string, = std::string())
        if x not in seen:
            seen.add(x)
            out.append(x)
    return out


REAL_SPECIALS = [0.0, 1.0, 2.0, 2.5, 1e-6, 1.0000001e-6, 3.0000000000000004, 1e-7, 0.5, 1.9999999999999998, 4.0]


INTEGRAL = [False]      # when set, real weights are integer-valued (the rounding of fractional weights is C08's business)


def weight_token(rng, wtype, allow_zero=True):
    if wtype == 'r':
        if INTEGRAL[0]:
            w = float(rng.choice([0, 1, 1, 1, 2, 3]) if allow_zero else rng.choice([1, 1, 2, 3]))
        else:
            w = rng.choice(REAL_SPECIALS) if rng.chance(0.7) else round(rng.unit() * 3.2, rng.rint(0, 3))
        if not allow_zero and w <= EPS:
            w = 1.0
        return repr(float(w))
    if wtype == 'i' and rng.chance(0.05) and allow_zero:
        return str(-rng.rint(1, 3))
    w = rng.choice([0, 1, 1, 1, 2, 3]) if allow_zero else rng.choice([1, 1, 2, 3])
    return str(w)


def gen_edges(rng, ltype, wtype, nmin=2, nmax=7, lmax=3, recmax=12, profile=None):
    """random multilayer edge list with the features the properties quantify over: parallel records,
    self-loops, all-zero records, vertices with only in-/out-edges, weights > 1.
    returns dict(labels=..., L=..., recs=[(s,t,[w...])...])"""
    n = rng.rint(nmin, nmax)
    L = rng.rint(1, lmax)
    labels = make_labels(rng, n, ltype)
    nrec = rng.rint(1, recmax) if rng.chance(0.3) else rng.rint(max(1, n - 1), recmax + n)
    recs = []
    # sink/source structure: optionally forbid some vertices as sources / targets
    no_out = set(i for i in range(n) if rng.chance(0.15))
    no_in = set(i for i in range(n) if rng.chance(0.15))
    for _ in range(nrec):
        kind = rng.below(10)
        if kind == 0 and recs:
            s, t, _w = rng.choice(recs)                     # parallel record
        elif kind == 1 and recs:
            t, s, _w = rng.choice(recs)                     # reversed record
        elif kind == 2:
            s = t = rng.choice(labels)                      # self-loop
        else:
            cs = [i for i in range(n) if i not in no_out] or list(range(n))
            ct = [i for i in range(n) if i not in no_in] or list(range(n))
            s = labels[rng.choice(cs)]
            t = labels[rng.choice(ct)]
        if rng.chance(0.08):
            ws = [('0.0' if wtype == 'r' else '0')] * L      # all-zero record
        else:
            ws = [weight_token(rng, wtype) for _ in range(L)]
        recs.append((s, t, ws))
    # extreme label values (limits of the label type), preferably as the very first source
    if ltype in ('u', 'i') and rng.chance(0.2):
        pool = ['18446744073709551615', '9223372036854775807', '4294967295', '2147483647', '0'] if ltype == 'u' else \
               ['9223372036854775807', '-9223372036854775808', '2147483647', '-2147483648', '-1', '0']
        ext = rng.choice(pool)
        present = set(x for s_, t_, _ in recs for x in (s_, t_))
        if ext not in present and recs:
            old = recs[0][0] if rng.chance(0.7) else rng.choice(recs)[rng.below(2)]
            recs = [(ext if s_ == old else s_, ext if t_ == old else t_, ws_) for s_, t_, ws_ in recs]
    if ltype == 's' and rng.chance(0.2):
        # the empty string (= std::string(), the smallest string, what numeric_limits<std::string>::max() returns), preferably as first source
        present = set(x for s_, t_, _ in recs for x in (s_, t_))
        if '\\e' not in present and recs:
            old = recs[0][0] if rng.chance(0.6) else rng.choice(recs)[rng.below(2)]
            recs = [('\\e' if s_ == old else s_, '\\e' if t_ == old else t_, ws_) for s_, t_, ws_ in recs]
    # make sure there are at least 2 distinct labels in use
    used = set()
    for s, t, _ in recs:
        used.add(s)
        used.add(t)
    if len(used) < 2:
        recs.append((labels[0], labels[1], [weight_token(rng, wtype, False) for _ in range(L)]))
    return {'L': L, 'recs': recs}


def first_appearance(recs):
    order = []
    seen = set()
    for s, t, _ in recs:
        for x in (s, t):
            if x not in seen:
                seen.add(x)
                order.append(x)
    return order


def recs_tokens(recs):
    out = []
    for s, t, ws in recs:
        out += [s, t] + list(ws)
    return out


# ----------------------------------------------------------------------------- GRAPH
def graph_case(cid, directed, ltype, wtype, L, recs):
    return ' '.join(['GRAPH', str(cid), str(int(directed)), ltype, wtype, str(L), str(len(recs))] + recs_tokens(recs))


def gen_graph_random(rng, cid):
    ltype = rng.choice(['u', 'i', 's'])
    wtype = rng.choice(['u', 'i', 'r'])
    directed = rng.chance(0.5)
    e = gen_edges(rng, ltype, wtype, nmax=rng.choice([3, 6, 12, 40]), recmax=rng.choice([4, 12, 40]))
    return graph_case(cid, directed, ltype, wtype, e['L'], e['recs']), {'directed': directed, 'ltype': ltype, 'wtype': wtype,
                                                                       'L': e['L'], 'recs': e['recs']}


def exhaustive_small_graphs(max_records, L_values=(1, 2)):
    """all edge lists over labels {a,b,c} (N<=3), L<=2, weights in {0,1,2}, up to max_records records,
    canonical up to the order of first appearance (labels are introduced in the order a, b, c)"""
    labels = ['a', 'b', 'c']
    for L in L_values:
        wvecs = list(itertools.product(['0', '1', '2'], repeat=L))
        for nrec in range(1, max_records + 1):
            def rec_lists(prefix, used):
                if len(prefix) == nrec:
                    yield list(prefix)
                    return
                # canonical: a new label may only be the next unused one
                avail = labels[:min(used + 1, 3)]
                for s in avail:
                    us = max(used, labels.index(s) + 1)
                    for t in labels[:min(us + 1, 3)]:
                        ut = max(us, labels.index(t) + 1)
                        for w in wvecs:
                            yield from rec_lists(prefix + [(s, t, list(w))], ut)
            for recs in rec_lists([], 0):
                yield L, recs


# ----------------------------------------------------------------------------- states for UPD
def gen_value(rng, regime):
    r = rng.below(100)
    if regime == 'wide':
        if r < 8:
            return 0.0
        if r < 14:
            return rng.choice([EPS, ulp_step(EPS, 1), ulp_step(EPS, -1), 2e-6, 9.9e-7, 1.5e-6])
        if r < 24:
            return 10 ** (-9 + 6 * rng.unit())
        return 10 ** (-3 + 6 * rng.unit())
    if regime == 'grid':
        # values whose products and short sums are EXACT in binary64 and land on / next to the 1e-6 threshold, so that the
        # guards `Z > eps`, `Zij > eps`, `old > eps` and the truncation `|x| < eps` are exercised at equality
        if r < 35:
            return rng.choice([EPS, EPS, ulp_step(EPS, 1), ulp_step(EPS, -1), 2 * EPS, 0.5 * EPS, 4 * EPS])
        if r < 55:
            return 0.0
        return rng.choice([1.0, 1.0, 0.5, 2.0, 0.25])
    if regime == 'unit':
        if r < 5:
            return 0.0
        return rng.unit()
    if regime == 'tiny':
        if r < 20:
            return 0.0
        return 10 ** (-7.5 + 3 * rng.unit())
    return rng.unit()


def gen_state(rng, N, K, L, directed, assort, regime=None, ul=None, vl=None):
    regime = regime or rng.choice(['wide', 'wide', 'unit', 'tiny', 'grid'])
    u = [[gen_value(rng, regime) for _ in range(K)] for _ in range(N)]
    v = [[gen_value(rng, regime) for _ in range(K)] for _ in range(N)]
    if rng.chance(0.15):
        k0 = rng.below(K)
        for i in range(N):
            u[i][k0] = 0.0                                   # zero column
    if rng.chance(0.1):
        k0 = rng.below(K)
        for i in range(N):
            v[i][k0] = 0.0
    wn = K * L if assort else K * K * L
    w = [gen_value(rng, regime) for _ in range(wn)]
    if rng.chance(0.15):
        a0 = rng.below(L)
        per = K if assort else K * K
        for p in range(per):
            w[a0 * per + p] = 0.0                            # zero affinity layer
    if (not assort) and rng.chance(0.3):
        # symmetric layers
        for a in range(L):
            for k in range(K):
                for q in range(k):
                    w[k + q * K + a * K * K] = w[q + k * K + a * K * K]
    # zero rows outside the vertex lists (as the solver guarantees from zeroed outputs) -- mostly
    if ul is not None and rng.chance(0.8):
        for i in range(N):
            if i not in ul:
                u[i] = [0.0] * K
    if vl is not None and rng.chance(0.8):
        for i in range(N):
            if i not in vl:
                v[i] = [0.0] * K
    return u, v, w, regime


def model_lists(recs, directed, wtype):
    """python re-computation of N, u_list, v_list membership for the generator's own use only"""
    order = first_appearance(recs)
    idx = {x: i for i, x in enumerate(order)}
    has_out = set()
    has_in = set()
    for s, t, ws in recs:
        pos = any((float(w) > EPS) for w in ws)
        if pos:
            has_out.add(idx[s])
            has_in.add(idx[t])
            if not directed:
                has_out.add(idx[t])
                has_in.add(idx[s])
    if not directed:
        has_in = has_out
    return len(order), has_out, has_in


def upd_case(cid, directed, assort, K, L, wtype, recs, u, v, w):
    toks = ['UPD', str(cid), str(int(directed)), str(int(assort)), str(K), str(L), wtype, str(len(recs))] + recs_tokens(recs)
    toks += [fhex(x) for row in u for x in row]
    if directed:
        toks += [fhex(x) for row in v for x in row]
    toks += [fhex(x) for x in w]
    return ' '.join(toks)


def gen_upd(rng, cid, directed=None, assort=None, wtype=None):
    directed = rng.chance(0.5) if directed is None else directed
    assort = rng.chance(0.5) if assort is None else assort
    wtype = wtype or rng.choice(['i', 'i', 'r'])
    e = gen_edges(rng, 's', wtype, nmax=rng.choice([3, 5, 7]), recmax=rng.choice([4, 9, 14]))
    K = rng.rint(2, 4)
    N, ul, vl = model_lists(e['recs'], directed, wtype)
    u, v, w, regime = gen_state(rng, N, K, e['L'], directed, assort, ul=ul, vl=vl)
    line = upd_case(cid, directed, assort, K, e['L'], wtype, e['recs'], u, v, w)
    return line, {'directed': directed, 'assort': assort, 'K': K, 'L': e['L'], 'N': N, 'regime': regime,
                  'recs': e['recs'], 'u': u, 'v': v, 'w': w, 'wtype': wtype}


def gen_graph_threshold(rng, cid):
    """real weights exactly at the 1e-6 threshold of the network constructor and one ulp on either side (a weight <= 1e-6 gives no
    edge, the next double above gives one)"""
    directed = rng.chance(0.5)
    L = rng.rint(1, 3)
    toks = [repr(EPS), repr(ulp_step(EPS, 1)), repr(ulp_step(EPS, -1)), '1e-06', '0.000001', '1.0000000000000002e-06', '0.0', '1.0', '2.5']
    labels = make_labels(rng, rng.rint(2, 4), 's')
    recs = [(rng.choice(labels), rng.choice(labels), [rng.choice(toks) for _ in range(L)]) for _ in range(rng.rint(1, 6))]
    return graph_case(cid, directed, 's', 'r', L, recs), {'directed': directed, 'ltype': 's', 'wtype': 'r', 'L': L, 'recs': recs}


# pairs (L_old, L) of likelihood values whose relative change |L_old - L| / |L_old| evaluates to EXACTLY 1e-4 in binary64 (found by search):
# the convergence test `< 1e-4` fails on them, `<= 1e-4` would pass
EXACT_CONV_PAIRS = [(float.fromhex('-0x1.bae63b3c8e2f0p+5'), float.fromhex('-0x1.badae4a6c3851p+5')),
                    (float.fromhex('-0x1.cc92172399b20p+5'), float.fromhex('-0x1.cc864cbe3f14ep+5')),
                    (float.fromhex('-0x1.7915661ede260p+5'), float.fromhex('-0x1.790bbedd95adap+5')),
                    (float.fromhex('-0x1.b32987f5b5ee0p+5'), float.fromhex('-0x1.b31e6414a2f12p+5')),
                    (float.fromhex('-0x1.d5deb2e8f9af0p+4'), float.fromhex('-0x1.d5d2ab9210cd1p+4')),
                    (float.fromhex('-0x1.d10340716d650p+3'), float.fromhex('-0x1.d0f758ef92a1bp+3'))]


def conv_threshold_scripts(rng):
    """likelihood scripts whose second evaluation lands exactly on the convergence threshold (and one ulp on either side)"""
    out = []
    for a, b in EXACT_CONV_PAIRS:
        for d in (0, 1, -1):
            b2 = ulp_step(b, d)
            out.append([a, b2, b2, b2, b2, b2])
            out.append([a * 1.5, a, b2, b2, ulp_step(b2, 3), b2])
    return out


THRESHOLD_FAMILIES = ['Z-u', 'Z-v', 'Z-w', 'old-u', 'old-v', 'old-w', 'Zij-u', 'Zij-v', 'new-u', 'new-v', 'new-w', 'undirected-Z', 'undirected-new', 'undirected-Zij']


def gen_upd_threshold(rng, cid, family=None, assort=None):
    """states on which ONE guarded quantity of the update routines / the likelihood equals the 1e-6 threshold EXACTLY (or sits one ulp
    beside it): a single edge 0 -> 1 in one layer, one active group g, every other entry exactly zero, the three active values
    a = u(0,g), b = v(1,g) (u(1,g) when undirected), c = w(g,g,layer) products of powers of two, 1e-6 and 1e6, so that every
    product, the one-term sums and the quotients involved are exact in binary64.  The bit-exact correspondence then tells
    `>` from `>=` and `<` from `<=` at each guard (Z, old value, edge rate, truncation of the new value, log argument)."""
    family = family or rng.choice(THRESHOLD_FAMILIES)
    assort = rng.chance(0.5) if assort is None else assort
    directed = not family.startswith('undirected')
    K = rng.rint(2, 3)
    g = rng.below(K)
    L = rng.choice([1, 2])
    a0 = rng.below(L)
    s = rng.rint(1, 6)
    t = rng.rint(0, 4)
    P = lambda e: 2.0 ** e
    a = b = c = 1.0
    if family == 'Z-u':
        a, b, c = 1.0, P(-s), EPS * P(s)                 # Z = c*b = eps
    elif family == 'Z-v':
        a, b, c = P(-s), 1.0, EPS * P(s)                 # Z = c*a = eps
    elif family == 'Z-w':
        a, b, c = EPS * P(s), P(-s), P(t)                # Z_kq = a*b = eps
    elif family == 'old-u':
        a, b, c = EPS, P(s), P(t)
    elif family == 'old-v':
        a, b, c = P(s), EPS, P(t)
    elif family == 'old-w':
        a, b, c = P(s), P(t), EPS
    elif family == 'Zij-u':
        a, b, c = P(-s), 1.0, EPS * P(s)                 # rate a*b*c = eps, Z_u = eps*2^s, Z_kq = 2^-s, log argument = eps
    elif family == 'Zij-v':
        a, b, c = 1.0, P(-s), EPS * P(s)
    elif family == 'new-u':
        a, b, c = P(s), 1.0, 1e6                         # new u = 2^s / 1e6 * 2^-s = eps
    elif family == 'new-v':
        a, b, c = 1.0, P(s), 1e6
    elif family == 'new-w':
        a, b, c = 1e6, 1.0, P(s)                         # new w = 2^s / 1e6 * (1e6 * (1 / (1e6 * 2^s))) = eps
    elif family == 'undirected-Z':
        a, b, c = P(-s - 1), P(-s - 1), EPS * P(s)       # Z = c*(a+b) = eps
    elif family == 'undirected-new':
        a, b, c = 1.0, 1.0, 5e5                          # Z = 1e6, new = eps for both vertices
    elif family == 'undirected-Zij':
        a, b, c = P(-s), 1.0, EPS * P(s)
    # one ulp beside the threshold, on either side, for two cases in five
    nudge = rng.choice([0, 0, 0, 1, -1])
    which = rng.below(3)
    if nudge:
        if which == 0:
            a = ulp_step(a, nudge)
        elif which == 1:
            b = ulp_step(b, nudge)
        else:
            c = ulp_step(c, nudge)
    extra = rng.chance(0.3)                              # a third vertex that only occurs in an all-zero record
    N = 3 if extra else 2
    ws = ['0'] * L
    ws[a0] = '1'
    recs = [('p', 'q', ws)]
    if extra:
        recs.append(('q', 'z', ['0'] * L))
    u = [[0.0] * K for _ in range(N)]
    v = [[0.0] * K for _ in range(N)]
    u[0][g] = a
    if directed:
        v[1][g] = b
    else:
        u[1][g] = b
    wn = K * L if assort else K * K * L
    w = [0.0] * wn
    w[(g + a0 * K) if assort else (g + g * K + a0 * K * K)] = c
    line = upd_case(cid, directed, assort, K, L, 'i', recs, u, v, w)
    return line, {'directed': directed, 'assort': assort, 'K': K, 'L': L, 'N': N, 'regime': 'threshold:' + family + ('' if not nudge else ':%+dulp' % nudge),
                  'recs': recs, 'u': u, 'v': v, 'w': w, 'wtype': 'i', 'family': family}


# ----------------------------------------------------------------------------- E2E
TYPE_PAIRS = [('u', 'u'), ('i', 'r'), ('s', 'i')]


def e2e_case(cid, directed, assort, from_init, ltype, wtype, r, maxit, nconv, seed, starts, ends, weights, aff,
             u_rows, u_cols, u0, v_rows, v_cols, v0, labels0, script, trace=0):
    t = ['E2E', str(cid), str(int(directed)), str(int(assort)), str(int(from_init)), ltype, wtype,
         str(r), str(maxit), str(nconv), str(seed)]
    t += [str(len(starts))] + list(starts) + [str(len(ends))] + list(ends) + [str(len(weights))] + list(weights)
    t += [str(len(aff))] + [fhex(x) for x in aff]
    t += [str(u_rows), str(u_cols)] + [fhex(x) for x in u0]
    t += [str(v_rows), str(v_cols)] + [fhex(x) for x in v0]
    t += [str(len(labels0))] + list(labels0)
    t += [str(len(script))]
    for s in script:
        t += [str(len(s))] + [fhex(x) for x in s]
    t += [str(trace)]
    return ' '.join(t)


def gen_e2e(rng, cid, variant=None, types=None, maxit_max=25, r_max=3, prior='zero', nmax=None, script=None,
            nconv=None, edges=None, trace=0, K=None, r=None, maxit=None, seed=None):
    directed, assort, from_init = variant if variant is not None else (rng.chance(0.5), rng.chance(0.5), rng.chance(0.5))
    ltype, wtype = types or rng.choice(TYPE_PAIRS)
    e = edges or gen_edges(rng, ltype, wtype, nmax=nmax or rng.choice([3, 5, 8]), recmax=rng.choice([3, 8, 16]))
    recs = e['recs']
    L = e['L']
    K = K or rng.rint(2, 4)
    N = len(first_appearance(recs))
    r = r or rng.rint(1, r_max)
    maxit = maxit or rng.choice([1, 2, rng.rint(3, maxit_max), rng.rint(3, maxit_max)])
    nconv = nconv or rng.rint(1, 3)
    seed = seed if seed is not None else rng.choice([0, 1, 42, rng.below(1 << 31), rng.below(1 << 31), (1 << 32) + rng.below(1000), -1 - rng.below(1000), (1 << 31) + rng.below(1 << 30)])
    aff_n = K * L if assort else K * K * L
    if from_init:
        aff = [rng.choice([0.0, rng.unit(), rng.unit() * 3, 1e-7]) for _ in range(aff_n)]
    else:
        aff = [0.0] * aff_n if rng.chance(0.7) else [rng.unit() for _ in range(aff_n)]
    if prior == 'zero':
        u0 = [0.0] * (N * K)
        v0 = [0.0] * (N * K) if directed else []
        labels0 = []
    elif prior == 'previous':
        # the output containers still hold the (positive, ordinary) result of an earlier call on another network
        u0 = [0.05 + rng.unit() * 3 for _ in range(N * K)]
        v0 = [0.05 + rng.unit() * 3 for _ in range(N * K)] if directed else []
        labels0 = []
    else:
        u0 = [rng.choice([0.0, rng.unit() * 5, 1e300, -1.0, 1e-9]) for _ in range(N * K)]
        v0 = [rng.choice([0.0, rng.unit() * 5, -3.0]) for _ in range(N * K)] if (directed or rng.chance(0.5)) else []
        labels0 = make_labels(rng, rng.below(4), ltype)
    vr, vc = (N, K) if v0 else (0, 0)
    starts = [s for s, _, _ in recs]
    ends = [t for _, t, _ in recs]
    weights = [w for _, _, ws in recs for w in ws]
    line = e2e_case(cid, directed, assort, from_init, ltype, wtype, r, maxit, nconv, seed, starts, ends, weights, aff,
                    N, K, u0, vr, vc, v0, labels0, script or [], trace)
    meta = {'directed': directed, 'assort': assort, 'from_init': from_init, 'ltype': ltype, 'wtype': wtype, 'r': r,
            'maxit': maxit, 'nconv': nconv, 'seed': seed, 'N': N, 'K': K, 'L': L, 'recs': recs, 'aff': aff, 'prior': prior,
            'u0': u0, 'v0': v0}
    return line, meta


def gen_e2e_vshape(rng, cid, directed=None, **kw):
    """a whole call whose in-membership argument has ANY shape on entry (never sized, or left over from a call on another network): the
    library sizes it itself when it needs it (directed) and ignores it otherwise"""
    variant = (rng.chance(0.7) if directed is None else directed, rng.chance(0.5), rng.chance(0.4))
    _line, m = gen_e2e(rng, cid, variant=variant, **kw)
    N, K = m['N'], m['K']
    vr, vc = rng.choice([s_ for s_ in [(0, 0), (0, 0), (2, 5), (N + 1, K), (N, K + 1), (1, 1), (K, N), (N * K, 1), (max(1, N - 1), K)] if s_ != (N, K)])
    v0 = [rng.choice([0.0, 0.5 + rng.unit(), 3.0]) for _ in range(vr * vc)]
    recs = m['recs']
    line = e2e_case(cid, m['directed'], m['assort'], m['from_init'], m['ltype'], m['wtype'], m['r'], m['maxit'], m['nconv'], m['seed'],
                    [s for s, _, _ in recs], [t for _, t, _ in recs], [w for _, _, ws in recs for w in ws], m['aff'], N, K, m['u0'], vr, vc, v0, [], [], kw.get('trace', 0))
    m['v0'] = v0
    m['vshape'] = (vr, vc)
    return line, m


VARIANTS = [(d, a, f) for f in (False, True) for a in (False, True) for d in (False, True)]


def layout_cases(maxdim=6):
    out = []
    cid = 0
    for R in range(1, maxdim + 1):
        for C in range(1, maxdim + 1):
            for T in range(1, maxdim + 1):
                out.append('LAYOUT %d %d %d %d' % (cid, R, C, T))
                cid += 1
    return out
