"""checklib.py -- the protocol every check follows (DESIGN.md 4.4):
   1 regenerate Gen*.v and re-check Properties_<id>.v (full .vo build, never -vos)
   2 build the extracted model and the sanitized harness from /repo's working tree
   3 correspondence components (model vs implementation, bit for bit)
   4 the property's oracle on the implementation (always; enlarged when 1 or 3 failed)
   5 verdict, evidence"""
import json, os, re, sys, time, traceback
import vf


# generated files each property's theorems depend on
# generated files for which NO correspondence component exists: their translator is the only tie
MANDATORY_GENS = {'C19': ('GenPyx.v',)}
TEXTUAL_ADVISORY = ('C02', 'C04', 'C05', 'C06', 'C08')
PROP_GENS = {'C02': ('GenParams.v',), 'C05': ('GenParams.v',), 'C14': ('GenParams.v',), 'C17': ('GenParams.v',), 'C13': ('GenCli.v', 'GenCliIdx.v'), 'C18': ('GenLayout.v', 'GenCliIdx.v'), 'C19': ('GenPyx.v', 'GenCli.v')}


class Ctx:
    def __init__(self, pid, tier):
        self.pid = pid
        self.tier = tier
        self.t0 = time.time()
        self.seed = vf.seed()
        self.rng = vf.Rng(self.seed).fork(pid)
        self.level = 'proof'
        self.obligations = []
        self.discharged = []
        self.assumptions_text = {}
        self.checker_cmd = ''
        self.proof_ok = False
        self.proof_log = ''
        self.tie_failures = []          # translator / build / correspondence breakages (strings)
        self.components = {}            # name -> stats
        self.oracle = {'evaluations': 0, 'distinct_nontrivial': 0, 'rule': '', 'violations': []}
        self.samples = []
        self.violations = []            # (key, payload)
        self.known_hits = []
        self.notes = []
        self.trusted = []
        self.extra = {}
        self.bdir = None
        self.enlarge = 1                # oracle budget multiplier (raised when proof or tie broke)

    # ------------------------------------------------------------------ budgets
    # thorough tier: per-property multiplier so that each thorough check runs for several minutes on 16 cores
    THOROUGH_SCALE = {'C02': 5, 'C03': 3, 'C04': 10, 'C05': 10, 'C06': 6, 'C07': 8, 'C09': 5, 'C10': 2, 'C11': 10, 'C12': 10,
                      'C13': 5, 'C14': 10, 'C15': 10, 'C17': 8}

    def budget(self, quick, thorough):
        n = quick if self.tier == 'quick' else int(thorough * self.THOROUGH_SCALE.get(self.pid, 1))
        return n * self.enlarge

    # ------------------------------------------------------------------ step 1
    def prove(self):
        """translate, then re-check Properties_<id>.vo.
        Tie policy: the model is tied to the code by the CORRESPONDENCE components of the check (hand-written model, run against the
        implementation).  The translators are a second tie for the finite facts they regenerate (constants, index formulas, tables).
        For every generated file except the ones in MANDATORY_GENS (no correspondence exists for them) a translator that no longer
        recognises the source, or whose new output no longer satisfies the proofs, makes the check FALL BACK to the committed
        reference copy of that file (coq/ref/): the theorems are then about the reference model, and it is the correspondence that
        must show the code still behaves like it.  The fallback is recorded (evidence: advisory) and is not an alarm by itself."""
        self.advisory = []              # [(generated file, what happened)]
        errs, msg = vf.translate()
        mandatory = MANDATORY_GENS.get(self.pid, ())
        for name, e in errs.items():
            if name == '*':
                self.tie_failures.append('translator: %s' % e)
            elif name in mandatory:
                self.tie_failures.append('translator %s: %s' % (name, e))
            elif name in PROP_GENS.get(self.pid, ()):
                self.advisory.append((name, 'translator no longer recognises the source (%s); the committed reference model is used, tied by the correspondence components' % e[:300]))
                vf.restore_ref([name])
            else:
                self.notes.append('translator %s failed (not a dependency of this property): %s' % (name, e[:200]))
                vf.restore_ref([name])
        bad = vf.forbidden_vernac()
        if bad:
            self.tie_failures.append('forbidden vernacular in the development: ' + '; '.join(bad[:5]))
        src = os.path.join(vf.COQ, 'Properties_%s.v' % self.pid)
        if not os.path.exists(src):
            self.tie_failures.append('missing ' + src)
            return False
        text = open(src).read()
        self.obligations = re.findall(r'^\s*(?:Theorem|Corollary)\s+([A-Za-z0-9_\']+)', text, re.M)
        # force re-checking of the property file itself; its dependencies are rebuilt when stale
        for ext in ('.vo', '.vok', '.vos', '.glob'):
            try:
                os.remove(src[:-2] + ext)
            except OSError:
                pass
        target = 'Properties_%s.vo' % self.pid
        self.checker_cmd = 'cd coq && tools/translate.py && coq_makefile -f _CoqProject -o Makefile && make -k -j%d %s  (coqc 8.16.1, full .vo)' % (vf.NCPU, target)
        ok, out = vf.coq_make([target])
        if not (ok and os.path.exists(os.path.join(vf.COQ, target))):
            # did a regenerated file change?  fall back to the reference copy of the non-mandatory ones and re-check
            changed = [g for g in vf.gen_changed() if g not in mandatory]
            if changed:
                first = self._first_error(out)
                vf.restore_ref(changed)
                ok2, out2 = vf.coq_make([target])
                if ok2 and os.path.exists(os.path.join(vf.COQ, target)):
                    for g in changed:
                        self.advisory.append((g, 'the regenerated file differs from the reference and the proofs do not go through over it (%s); the committed reference model is used, tied by the correspondence components' % first[:300]))
                    ok, out = ok2, out2
        self.proof_log = out[-6000:]
        self.proof_ok = ok and os.path.exists(os.path.join(vf.COQ, target))
        if self.advisory:
            self.extra['advisory'] = [{'generated_file': g, 'what': w} for g, w in self.advisory]
            for g, w in self.advisory:
                self.notes.append('ADVISORY %s: %s' % (g, w[:400]))
        if self.pid in TEXTUAL_ADVISORY:
            # the spelling of the guard comparisons (T6): a note, never part of the verdict
            okt, outt = vf.coq_make(['AdvisoryTextual.vo'])
            self.extra['advisory_textual_guards'] = 'as documented' if okt else ('differs: ' + self._first_error(outt)[:300])
        # Print Assumptions blocks, in order
        names = re.findall(r'Print Assumptions\s+([A-Za-z0-9_\']+)\s*\.', text)
        blocks = re.findall(r'(?ms)^(Closed under the global context|Axioms:.*?)(?=^\S|\Z)', out)
        # more robust: split on lines starting a block
        blks = []
        cur = None
        for line in out.splitlines():
            if line.startswith('Closed under the global context'):
                if cur is not None:
                    blks.append(cur)
                blks.append([line])
                cur = None
            elif line.startswith('Axioms:'):
                if cur is not None:
                    blks.append(cur)
                cur = [line]
            elif cur is not None:
                if line.startswith(('COQC', 'COQDEP', 'make', 'File ')) :
                    blks.append(cur)
                    cur = None
                else:
                    cur.append(line)
        if cur is not None:
            blks.append(cur)
        # only the blocks printed while compiling the property file count; they are the last len(names)
        blks = blks[-len(names):] if names else []
        for n, b in zip(names, blks):
            self.assumptions_text[n] = ' '.join(' '.join(b).split())
        if self.proof_ok:
            self.discharged = list(self.obligations)
        else:
            self.discharged = []
            self.tie_failures.append('proof obligations of Properties_%s.v do not check: %s' % (self.pid, self._first_error(out)))
        return self.proof_ok

    @staticmethod
    def _first_error(out):
        m = re.search(r'(File "[^"]+", line \d+[^\n]*\n(?:.*\n){0,6})', out)
        return (m.group(1).strip() if m else out[-400:]).replace('\n', ' | ')[:600]

    # ------------------------------------------------------------------ step 2
    def build(self, need_model=True):
        if need_model:
            ok, msg = vf.build_model()
            if not ok:
                self.tie_failures.append('model build: ' + msg[-600:])
        self.bdir, msg = vf.build_cxx('san')
        if self.bdir is None:
            self.tie_failures.append('C++ build (hooks on, sanitized): ' + msg[-800:])
            return False
        return True

    # ------------------------------------------------------------------ step 3
    def component(self, name, cases, timeout=3000, model=True, keys=None, verdict=True, retain=True):
        """model vs implementation on the given case lines.
        model=False : implementation only (under the sanitizers), traces for the oracle
        keys        : compare only these observables (the ones the property's theorems depend on)
        verdict=False: a diagnostic of the model as a whole; recorded in the evidence, never part of the verdict"""
        if self.bdir is None:
            return None
        t0 = time.time()
        res = vf.run_both(self.bdir, cases, name, timeout=timeout, model=model, keys=keys, retain=retain)
        if os.environ.get('VERIF_MEMLOG'):
            import resource
            sys.stderr.write('MEMLOG %s after %s: maxrss %d MB\n' % (self.pid, name, resource.getrusage(resource.RUSAGE_SELF).ru_maxrss // 1024))
        if res.get('unavailable'):
            # the harness unit of this component reaches into an internal interface that no longer compiles (renamed private
            # member, changed helper signature).  The property may well still hold: when the check names a fallback -- whole calls
            # through the PUBLIC entry point, compared bit for bit with the model -- that correspondence is the tie instead.
            why = ''
            try:
                why = json.load(open(os.path.join(self.bdir, 'unavailable.json'))).get(sorted(res['unavailable'])[0], '')
            except Exception:
                pass
            fb = getattr(self, 'fallback_e2e', None)
            fb_cases = fb() if (fb and verdict) else None
            if fb_cases:
                r2 = vf.run_both(self.bdir, fb_cases, name + ' fallback', timeout=timeout, model=True, keys={'status', 'labels', 'u', 'v', 'aff', 'rep'})
                okfb = not r2['mismatches'] and not r2['crashes'] and not r2.get('unavailable')
                self.components[name + ' -> fallback K-E2E(public entry point, bit-exact)'] = {
                    'cases': r2['n'], 'compared_tokens': r2['compared_tokens'], 'mismatches': len(r2['mismatches']), 'crashes': len(r2['crashes']),
                    'compared': 'status, labels, u, v, affinity, report'}
                if okfb:
                    self.extra.setdefault('advisory', []).append({'component': name, 'what': 'harness unit %s does not compile against this tree (%s); whole calls through the public entry point agree bit for bit with the model instead' % (sorted(res['unavailable']), why[:200])})
                    self.notes.append('ADVISORY component %s unavailable (%s): tied by the public-entry-point correspondence instead' % (name, why[:160]))
                    self.components[name] = {'cases': res['n'], 'compared_tokens': 0, 'mismatches': 0, 'crashes': 0, 'compared': 'UNAVAILABLE (see fallback)'}
                    return None
                self.tie_failures.append('correspondence %s unavailable and its fallback disagrees: %d mismatching case(s)' % (name, len(r2['mismatches'])))
                return None
            if verdict:
                self.tie_failures.append('correspondence %s could not be run: harness unit %s does not compile against this tree (%s)' % (name, sorted(res['unavailable']), why[:300]))
            self.components[name] = {'cases': res['n'], 'compared_tokens': 0, 'mismatches': 0, 'crashes': 0, 'compared': 'UNAVAILABLE'}
            return None
        if res.get('degraded'):
            self.extra.setdefault('advisory', []).append({'component': name, 'what': 'run in degraded mode: %s (the private-access unit of the harness does not compile against this tree)' % sorted(res['degraded'])})
            self.notes.append('ADVISORY component %s degraded: %s' % (name, sorted(res['degraded'])))
        if not verdict:
            self.extra.setdefault('diagnostics', {})[name] = {'cases': res['n'], 'compared_tokens': res['compared_tokens'],
                                                               'mismatches': len(res['mismatches']), 'crashes': len(res['crashes']),
                                                               'first_mismatch': (res['mismatches'][0] if res['mismatches'] else None),
                                                               'note': 'whole-model diagnostic, not part of this property\'s verdict'}
            return res
        st = {'cases': res['n'], 'compared_tokens': res['compared_tokens'], 'mismatches': len(res['mismatches']),
              'crashes': len(res['crashes']), 'wall_s': round(time.time() - t0, 2), 'compared': ('implementation only' if not model else (sorted(keys) if keys else 'all observables'))}
        self.components[name] = st
        if res['mismatches']:
            m = res['mismatches'][0]
            self.tie_failures.append('correspondence %s: %d mismatching case(s); first: key=%s impl=%s model=%s' % (
                name, len(res['mismatches']), m.get('key'), str(m.get('impl'))[:160], str(m.get('model'))[:160]))
            st['first_mismatch'] = m
        for c in res['crashes']:
            self.tie_failures.append('correspondence %s: process exit %s (sanitizer/assertion?) on case %s' % (
                name, c['rc'], (c['case'] or '?')[:200]))
            st.setdefault('crash_samples', []).append({'rc': c['rc'], 'case': c['case'], 'output': c['output'][-1500:]})
            if c['case'] and not any(v['key'] == 'implementation-aborts' for v in self.violations):
                # the case on which the real code dies (assertion, sanitizer report, signal) IS a concrete failing input: the modelled behaviour
                # of the property's subject is a result, the implementation delivers none
                self.violation('implementation-aborts', 'the implementation ends with exit status %s (assertion / sanitizer report / signal) on this input (component %s)' % (c['rc'], name),
                               {'case': c['case'], 'output': c['output'][-1500:]})
        return res

    # ------------------------------------------------------------------ step 4/5
    def violation(self, key, what, payload):
        """an input on which the PROPERTY fails on the implementation"""
        self.violations.append({'key': key, 'what': what, 'payload': payload})

    def finish(self):
        known = vf.load_known()
        mine = [k for k in known['finding'] if k['property'] == self.pid]
        unlisted = []
        hit_keys = {}
        for v in self.violations:
            k = next((f for f in mine if f['key'] == v['key']), None)
            if k is not None:
                hit_keys.setdefault(k['key'], (k, v))
            else:
                unlisted.append(v)
        rc = 0
        lines = []
        for key, (k, v) in hit_keys.items():
            lines.append('KNOWN-FINDING: property=%s key=%s %s' % (self.pid, key, k['text']))
        # a listed finding that did not reproduce is still announced (it is replayed first by the oracle;
        # if it no longer fails, say so in the notes)
        for k in mine:
            if k['key'] not in hit_keys:
                self.notes.append('known finding %s did not reproduce in this run' % k['key'])
        if unlisted:
            rc = 1
            v = unlisted[0]
            p = vf.write_replay(self.pid, 'violation', {'property': self.pid, 'kind': 'failing-input', 'key': v['key'],
                                                        'what': v['what'], 'input': v['payload'],
                                                        'tie_failures': self.tie_failures, 'seed': self.seed, 'tier': self.tier})
            lines.append('VIOLATION property=%s replay=%s' % (self.pid, p))
        elif self.tie_failures:
            rc = 1
            p = vf.write_replay(self.pid, 'unproved', {'property': self.pid, 'kind': 'no-failing-input-found',
                                                       'no_longer_checks': self.tie_failures,
                                                       'proof_log_tail': self.proof_log[-3000:],
                                                       'components': self.components, 'seed': self.seed, 'tier': self.tier})
            lines.append('VIOLATION property=%s replay=%s no-failing-input-found' % (self.pid, p))
        cov = {
            'obligations': len(self.obligations), 'discharged': len(self.discharged),
            'checker_cmd': self.checker_cmd or 'none',
            'trusted_base': self.trusted + ['Print Assumptions %s: %s' % (n, t) for n, t in self.assumptions_text.items()],
            'theorems': self.obligations,
            'correspondence': self.components,
            'evaluations': self.oracle['evaluations'] + sum(c['cases'] for c in self.components.values()),
            'distinct_nontrivial': self.oracle['distinct_nontrivial'],
            'rule': self.oracle['rule'],
            'samples': self.samples[:3] if self.samples else [{'note': 'no sample recorded'}],
            'traces_validated_against_impl': sum(c['cases'] - c['mismatches'] for c in self.components.values()),
            'oracle': {k: v for k, v in self.oracle.items() if k != 'violations'},
            'tie_failures': self.tie_failures,
            'known_findings_reported': list(hit_keys.keys()),
            'notes': self.notes,
        }
        cov.update(self.extra)
        if self.level == 'other':
            cov['explanation'] = self.extra.get('explanation', 'see level_note in MANIFEST.json')
        assumptions = list(self.trusted)
        vf.write_evidence(self.pid, self.tier, self.level, cov, assumptions, time.time() - self.t0,
                          len(unlisted) + (1 if (self.tie_failures and not unlisted) else 0))
        vf.cleanup_work()
        for l in lines:
            print(l)
        summary = '%s %s: obligations %d/%d, components %s, oracle evals %d, tie_failures %d, violations %d, %.1fs' % (
            self.pid, self.tier, len(self.discharged), len(self.obligations),
            {k: '%d/%d' % (v['cases'] - v['mismatches'], v['cases']) for k, v in self.components.items()},
            self.oracle['evaluations'], len(self.tie_failures), len(unlisted), time.time() - self.t0)
        print(summary)
        if self.tie_failures:
            for t in self.tie_failures[:6]:
                print('  broken: ' + t[:500])
        return rc


def generic_replay(ctx, path):
    """re-run exactly the recorded case(s) of a replay file against the working tree: implementation and model side by side"""
    d = json.load(open(path))
    print('replay of %s: kind=%s key=%s' % (path, d.get('kind'), d.get('key')))
    if d.get('kind') == 'no-failing-input-found':
        print('no failing input was found; what no longer checks:')
        for t in d.get('no_longer_checks', []):
            print('  - ' + t[:1000])
        return 1
    print('what: %s' % d.get('what'))
    cases = []

    def collect(x):
        if isinstance(x, str):
            if x.split(' ', 1)[0] in vf.PREFIX:
                cases.append(x)
        elif isinstance(x, dict):
            for v in x.values():
                collect(v)
        elif isinstance(x, list):
            for v in x:
                collect(v)
    collect(d.get('input'))
    if not cases:
        print('the replay carries no harness case line; recorded input:')
        print(json.dumps(d.get('input'), indent=1)[:4000])
        return 1
    if not ctx.build():
        print('build failed: ' + '; '.join(ctx.tie_failures))
        return 1
    res = vf.run_both(ctx.bdir, cases, 'replay', shards=1)
    for c in cases:
        cid = vf.case_id(c)
        print('case: ' + c[:600])
        a, b = res['impl'].get(cid), res['model'].get(cid)
        for name, tr in (('implementation', a), ('model', b)):
            print(' %s:' % name)
            for t in (tr or [])[:40]:
                print('   ' + ' '.join(t)[:300])
    print('model/implementation mismatches: %d, crashes: %d' % (len(res['mismatches']), len(res['crashes'])))
    vf.cleanup_work()
    return 1 if (res['mismatches'] or res['crashes']) else 0


def main(argv):
    import importlib
    if len(argv) < 2:
        print('usage: check <id> [--quick|--thorough] [--replay file]')
        return 2
    pid = argv[1]
    tier = os.environ.get('VERIF_TIER', 'quick')
    replay = None
    i = 2
    while i < len(argv):
        if argv[i] == '--quick':
            tier = 'quick'
        elif argv[i] == '--thorough':
            tier = 'thorough'
        elif argv[i] == '--replay':
            replay = argv[i + 1]
            i += 1
        i += 1
    if tier not in ('quick', 'thorough'):
        tier = 'quick'
    sys.path.insert(0, os.path.join(vf.VERIF, 'props'))
    mod = importlib.import_module(pid)
    ctx = Ctx(pid, tier)
    try:
        if replay:
            if hasattr(mod, 'replay'):
                return mod.replay(ctx, replay)
            return generic_replay(ctx, replay)
        mod.run(ctx)
    except Exception:
        ctx.tie_failures.append('check crashed: ' + traceback.format_exc()[-1500:])
    return ctx.finish()
