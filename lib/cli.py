"""cli.py -- K-WRITE: run the REAL Multitensor binary (built from /repo's working tree, sanitized) on generated files and
option combinations and compare the four result files, token by token, with the serialisation of what the LIBRARY
returns for the same network, variant, parameters and seed (harness E2E)."""
import os, shutil
import gen, vf, files, oracles


def int_recs(rng, nmax=6, lmax=3, recmax=10):
    e = gen.gen_edges(rng, 'u', 'u', nmax=nmax, lmax=lmax, recmax=recmax)
    return e


def expected_aff_from_file(K, L, assort, diag):
    n = K * L if assort else K * K * L
    aff = [0.0] * n
    for a in range(L):
        for k in range(K):
            aff[(k + a * K) if assort else (k + k * K + a * K * K)] = float(diag[a][k])
    return aff


def make_case(rng, cid, wd, variant=None, defaults=False, edges=None, const_w=False, overflow_w=False):
    directed, assort, from_init = variant if variant is not None else (rng.chance(0.5), rng.chance(0.5), rng.chance(0.5))
    e = edges if edges is not None else int_recs(rng)
    recs, L = e['recs'], e['L']
    if const_w:
        # callers whose subject is neither the labels nor the file layout (C17, C19): small plain labels, so that a change in how labels or values are
        # read and printed (C12, C13, C14, C18) does not show up there
        ren = {l: str(3 + 2 * i) for i, l in enumerate(gen.first_appearance(recs))}
        recs = [(ren[s_], ren[t_], ws) for s_, t_, ws in recs]
    N = len(gen.first_appearance(recs))
    K = rng.rint(2, 4)
    d = os.path.join(wd, 'cli%d' % cid)
    os.makedirs(d, exist_ok=True)
    data, style = files.render_adjacency(rng, recs)
    adj_name = 'adjacency.dat' if defaults else 'net_%d.txt' % cid
    open(os.path.join(d, adj_name), 'wb').write(data)
    args = ['--k', str(K)]
    if not defaults:
        args += ['--a', adj_name]
    r, maxit, nconv = 1, 500, 10
    seed = rng.choice([0, 1, 5489, rng.below(1 << 30)])
    args += ['--s', str(seed)]
    if not directed:
        args.append('--undirected')
    if assort:
        args.append('--assortative')
    aff = [0.0] * (K * L if assort else K * K * L)
    if from_init:
        diag = [[rng.choice([0.0, round(rng.unit(), 4), round(3 * rng.unit(), 3), 1e-7]) for _ in range(K)] for _ in range(L)]
        if overflow_w:
            # two layers of opposite huge values: the layer sums cancel (no membership is ever updated), the first affinity update overflows and
            # every likelihood is NaN -- NO realization is adopted, and what the front end writes is what IT allocated before the call
            assert L == 2
            diag = [[1.79e308] * K, [-1.79e308] * K]
        elif const_w:
            # one value everywhere: WHERE the reader puts the values is not this caller's subject (C14, C18), only that they are used
            diag = [[round(0.2 + rng.unit(), 3)] * K] * L
        wdata, wstyle = files.render_affinity(rng, K, L, diag)
        open(os.path.join(d, 'w_init.dat'), 'wb').write(wdata)
        args += ['--w', 'w_init.dat']
        # the values as the file tokens spell them
        diag = [[float(files.fmt_val(x)) for x in row] for row in diag]
        aff = expected_aff_from_file(K, L, assort, diag)
    if not defaults or rng.chance(0.5):
        r = rng.rint(1, 3)
        args += ['--r', str(r)]
    if not defaults:
        maxit = rng.choice([1, 7, 25, 60, 120])
        args += ['--maxit', str(maxit)]
        nconv = rng.choice([1, 1, 2, 3])
        args += ['--y', str(nconv)]
    elif cid % 2 == 0:
        # the default iteration limit is only visible in a run that cannot converge before it: 60 consecutive passes need 600 sweeps
        nconv = 60
        args += ['--y', '60']
    out_name = 'results'
    if not defaults:
        out_name = rng.choice(['out', 'results', 'res_%d' % cid])
        args += ['--o', out_name]
        if rng.chance(0.4):
            os.makedirs(os.path.join(d, out_name))                       # existing output directory (with stale files)
            open(os.path.join(d, out_name, 'v_out.dat'), 'w').write('stale\n') if rng.chance(0.3) and directed else None
    # the options in a random order (an option keeps its value next to it): `--assortative` before `--a`, `--k` last, ...
    groups, i = [], 0
    while i < len(args):
        if i + 1 < len(args) and not args[i + 1].startswith('--'):
            groups.append(args[i:i + 2])
            i += 2
        else:
            groups.append(args[i:i + 1])
            i += 1
    if not defaults or True:
        groups = rng.shuffle(groups)
    args = [x for g_ in groups for x in g_]
    starts = [s for s, _, _ in recs]
    ends = [t for _, t, _ in recs]
    weights = [w for _, _, ws in recs for w in ws]
    line = gen.e2e_case(cid, directed, assort, from_init, 'u', 'u', r, maxit, nconv, seed, starts, ends, weights, aff, N, K, [0.0] * (N * K),
                        N if directed else 0, K if directed else 0, [0.0] * (N * K) if directed else [], [], [])
    meta = {'cid': cid, 'dir': d, 'args': args, 'out': os.path.join(d, out_name), 'directed': directed, 'assort': assort, 'from_init': from_init,
            'K': K, 'L': L, 'N': N, 'seed': seed, 'r': r, 'maxit': maxit, 'nconv': nconv, 'style': style, 'recs': recs, 'defaults': defaults}
    return line, meta


def run_and_compare(ctx, bdir, metas, traces):
    """run the binary for every meta and compare with the library trace; returns stats, reports violations on ctx"""
    stats = {'runs': 0, 'agree': 0, 'by_variant': {}}
    for m in metas:
        rc, out = vf.run_cli(bdir, m['args'], m['dir'])
        stats['runs'] += 1
        tr = traces.get('E %d' % m['cid'])
        if tr is None:
            continue
        d = oracles.trace_dict(tr)
        key = '%d%d%d' % (m['directed'], m['assort'], m['from_init'])
        if 'ERROR: AddressSanitizer' in out or 'runtime error:' in out:
            ctx.violation('cli-sanitizer', 'sanitizer report from the command line binary', {'args': m['args'], 'dir_listing': sorted(os.listdir(m['dir'])), 'output': out[-1500:]})
            continue
        if d['status'][0][0] != 'OK':
            if rc == 0:
                ctx.violation('cli-vs-library', 'the library rejects this configuration but the command line terminates normally', {'args': m['args']})
            continue
        if rc != 0:
            ctx.violation('cli-vs-library', 'the command line fails (exit %s) where the library accepts' % rc, {'args': m['args'], 'output': out[-800:],
                                                                                                               'adjacency': open(os.path.join(m['dir'], [a for a in os.listdir(m['dir']) if a.startswith(('net_', 'adjacency'))][0]), 'rb').read().decode('latin-1')})
            continue
        exp = files.expected_files(m, d, m['directed'], m['K'], m['L'], m['assort'])
        got = files.read_result_files(m['out'])
        if not m['directed'] and 'v_out.dat' in got and got['v_out.dat'] == [['stale']]:
            got.pop('v_out.dat')                                         # pre-existing stale file, not written by this run
        diff = files.compare_files(exp, got)
        if diff:
            ctx.violation('cli-vs-library', 'result files are not the serialisation of the library\'s result: ' + diff,
                          {'args': m['args'], 'variant': key, 'adjacency_style': m['style']})
        else:
            stats['agree'] += 1
            stats['by_variant'][key] = stats['by_variant'].get(key, 0) + 1
    return stats


# ----------------------------------------------------------------------------- K-CLI(model): the binary vs the extracted cli_main
def hexs(b):
    if isinstance(b, str):
        b = b.encode('latin-1')
    return b.hex() if b else '-'


def cli_case_line(cid, args, d, now=0):
    """CLI <id> <now> <nargs> <hex args...> <nfiles> (<hex name> <hex content>)...  -- the files of directory d (not its sub-directories)"""
    names = [f for f in sorted(os.listdir(d)) if os.path.isfile(os.path.join(d, f))]
    t = ['CLI', str(cid), str(now), str(len(args))] + [hexs(a) for a in args] + [str(len(names))]
    for f in names:
        t += [hexs(f), hexs(open(os.path.join(d, f), 'rb').read())]
    return ' '.join(t)


def cli_impl_trace(rc, out, outdir, existed_before, stale, check_created=True):
    """the canonical lines of one run of the real binary, as the driver prints them for cli_main"""
    lines = []
    if rc != 0:
        # CliThrow: the process ends abnormally and NOTHING is created (the run happens in a fresh directory)
        lines.append(['status', 'ABORT'] + (['but-created', os.path.basename(outdir)] + sorted(os.listdir(outdir)) if (check_created and os.path.exists(outdir)) else []))
        return lines
    lines.append(['status', 'OK'])
    got = files.read_result_files(outdir)
    for name in ('run_info.dat', 'w_out.dat', 'u_out.dat', 'v_out.dat'):
        if name not in got or (name in stale and got[name] == stale[name]):
            continue
        rows = got[name]
        lines.append(['file', name, str(len(rows))])
        for i, r in enumerate(rows):
            r = [x.replace('-nan', 'nan') for x in r]
            lines.append(['row', name, str(i), ':'] + r)
    return lines


def compare_with_model(ctx, bdir, metas, name='K-CLI(model)', check_created=True):
    """the real binary on (argv, files) vs the extracted Gallina cli_main on the same argv and file contents: exit status, which files
    exist, every token of every file (the duration is a wildcard)"""
    wd = vf.workdir()
    cases = []
    for m in metas:
        cases.append(cli_case_line(m['cid'], m['args'], m['dir']))
    cp = os.path.join(wd, 'cli_model.cases')
    open(cp, 'w').write('\n'.join(cases) + '\n')
    rc, out = vf.run_model(cp, cp + '.model')
    tm, _ = vf.parse_trace(cp + '.model')
    st = {'cases': len(metas), 'compared_tokens': 0, 'mismatches': 0, 'crashes': 0, 'compared': 'exit status, files present, every token of every file'}
    if rc != 0:
        ctx.tie_failures.append('correspondence %s: the model driver failed: %s' % (name, out[-300:]))
    for m, case in zip(metas, cases):
        # a fresh directory holding the input files only (the case directory may carry results of an earlier run)
        fresh = os.path.join(wd, 'climodel_%d' % m['cid'])
        os.makedirs(fresh, exist_ok=True)
        for f in os.listdir(m['dir']):
            if os.path.isfile(os.path.join(m['dir'], f)):
                shutil.copy(os.path.join(m['dir'], f), fresh)
        outdir = os.path.join(fresh, os.path.relpath(m['out'], m['dir']))
        stale = {}
        rc, out = vf.run_cli(bdir, m['args'], fresh)
        impl = cli_impl_trace(rc, out, outdir, None, stale, check_created)
        model = [x for x in tm.get('C %d' % m['cid'], [])]
        model = [x[:2] if x[0] == 'status' and x[1] == 'ABORT' else x for x in model if x[0] != 'outdir']
        WANT_SEED = [None]
        def wild(rows, is_model=False):
            # what is compared is the FRONT END's own logic: exit status, which files exist, their shape (rows, tokens per row), the vertex labels,
            # the layer headers, the number of realizations, the seed.  The numbers the solver computed (memberships, affinities, likelihoods,
            # iteration counts, termination reasons) are masked: that they are the library's is K-WRITE's business (binary vs the real library),
            # and a change of the numerics inside the library must not make this comparison fire.
            out = []
            seed_tok = None
            comment_toks = set()
            for r in rows:
                if r[0] == 'file':
                    out.append(r[:2])                    # which files exist (the number of lines includes presentation lines)
                    continue
                if r[0] != 'row':
                    out.append(r)
                    continue
                name, idx, toks = r[1], int(r[2]), list(r[4:])
                if toks and toks[0].startswith('#'):
                    # comment lines are presentation, except that the info file must list the seed
                    if name == 'run_info.dat':
                        comment_toks.update(toks)
                        if toks[:2] == ['#', 'Seed']:
                            seed_tok = toks[-1]
                    continue
                if name == 'w_out.dat' and not (toks and files.is_number(toks[0])):
                    continue                             # block headers (`a= 3`) are presentation
                if name == 'run_info.dat':
                    toks = toks[:1] + ['?'] * (len(toks) - 1)
                elif name in ('u_out.dat', 'v_out.dat'):
                    toks = toks[:1] + ['?'] * (len(toks) - 1)
                elif name == 'w_out.dat':
                    toks = ['?'] * len(toks)
                out.append(['row', name, ':'] + toks)
            out.append(['seed-listed', seed_tok if seed_tok is not None else '-'] if is_model else ['seed-listed', '-'])
            if not is_model:
                out[-1] = ['seed-listed', WANT_SEED[0] if (WANT_SEED[0] is not None and WANT_SEED[0] in comment_toks) else ('-' if WANT_SEED[0] is None else 'MISSING')]
            return out
        b = wild(model, True)
        WANT_SEED[0] = next((x[1] for x in b if x[0] == 'seed-listed' and x[1] != '-'), None)
        a = wild(impl)
        st['compared_tokens'] += sum(len(x) for x in a)
        if 'ERROR: AddressSanitizer' in out or 'runtime error:' in out:
            st['crashes'] += 1
            ctx.tie_failures.append('correspondence %s: sanitizer report from the binary on %s' % (name, ' '.join(m['args'])))
        elif a != b:
            st['mismatches'] += 1
            first = next((i for i, (x, y) in enumerate(zip(a, b)) if x != y), min(len(a), len(b)))
            if st['mismatches'] == 1:
                st['first_mismatch'] = {'args': m['args'], 'impl': ' '.join(a[first])[:300] if first < len(a) else None,
                                        'model': ' '.join(b[first])[:300] if first < len(b) else None, 'case': case[:2000]}
                ctx.tie_failures.append('correspondence %s: the binary and cli_main differ on `%s`: impl=%s model=%s' % (
                    name, ' '.join(m['args']), st['first_mismatch']['impl'], st['first_mismatch']['model']))
    ctx.components[name] = st
    return st
