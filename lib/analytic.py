"""analytic.py -- turns implementation traces (UPD component: one sweep from an installed state; E2E component with
trace level 2: every state of a trajectory) into python States and classifies steps (clean / snapped / low rate /
skipped affinity update) for the oracles of C01, C02, C06, C09, C10, C11."""
import math
import pyspec
from vf import bits_to_float


def fl(tokens):
    return [bits_to_float(h) for h in tokens]


def upd_observation(meta, tr):
    """meta from gen.gen_upd, tr = implementation trace lines of that case"""
    d = {t[0]: t[1:] for t in tr}
    N = int(d['dims'][0])
    K, L = meta['K'], meta['L']
    directed, assort = meta['directed'], meta['assort']
    N2, A = pyspec.multiplicities(meta['recs'], directed, L)
    u0 = [x for row in meta['u'] for x in row]
    v0 = [x for row in meta['v'] for x in row]
    st0 = pyspec.State(N, K, L, assort, directed, u0, v0, meta['w'])
    after = pyspec.State(N, K, L, assort, directed, fl(d['sweep_u']), fl(d['sweep_v']) if directed else [], fl(d['sweep_w']))
    # (when the private-access unit of the harness is unavailable the case runs through the public entry point and delivers the composed
    #  sweep only: `lik`, `u1`, `v1`, `w1` are then absent -> None)
    return {'N': N, 'A': A, 'st0': st0, 'after': after, 'lik0': bits_to_float(d['lik'][0]) if 'lik' in d else None, 'lik1': bits_to_float(d['sweep_lik'][0]),
            'u1_alone': fl(d['u1']) if 'u1' in d else None, 'w1_alone': fl(d['w1']) if 'w1' in d else None,
            'v1_alone': fl(d['v1']) if (directed and 'v1' in d) else None}


def step_report(st0, A, after):
    """classification of the step st0 -> after (after = implementation's next state)"""
    N, K, L = st0.N, st0.K, st0.L
    u1, v1 = after.u, after.v
    snapped = []
    for i in range(N):
        for k in range(K):
            if st0.u[i][k] != 0.0 and u1[i][k] == 0.0:
                snapped.append(('u', i, k))
            if st0.directed and st0.v[i][k] != 0.0 and v1[i][k] == 0.0:
                snapped.append(('v', i, k))
    w0f, w1f = pyspec.flat_w(st0, st0.w), pyspec.flat_w(after, after.w)
    for p in range(len(w0f)):
        if w0f[p] != 0.0 and w1f[p] == 0.0:
            snapped.append(('w', p))
    # observed rates at the three intermediate states of the sweep
    r1 = pyspec.min_observed_rate(st0, A, st0.u, st0.v)
    r2 = pyspec.min_observed_rate(st0, A, u1, st0.v if st0.directed else u1)
    r3 = pyspec.min_observed_rate(st0, A, u1, v1)
    r4 = pyspec.min_observed_rate(after, A, u1, v1)
    minrate = min(r1, r2, r3)
    Du = [math.fsum(u1[i][k] for i in range(N)) for k in range(K)]
    Dv = [math.fsum(v1[j][q] for j in range(N)) for q in range(K)]
    skipped = []
    for a in range(L):
        for k in range(K):
            for q in ([k] if st0.assort else range(K)):
                old = st0.w[a][k] if st0.assort else st0.w[a][k][q]
                if old > pyspec.EPS and not (Du[k] * Dv[q] > pyspec.EPS):
                    skipped.append((k, q, a))              # guard on the denominator
                elif 0.0 < old <= pyspec.EPS:
                    skipped.append((k, q, a))              # guard on the old value: entries in (0, 1e-6] are left unchanged
    # membership columns skipped by the denominator guard are harmless for the directed proof; record anyway
    return {'snapped': snapped, 'min_rate': minrate, 'min_rate_after': r4, 'low_rate': not (minrate > pyspec.EPS),
            'affinity_update_skipped': skipped, 'clean': (not snapped) and minrate > pyspec.EPS}


def e2e_states(tr, meta):
    """@state lines of an E2E trace (trace level 2) -> {realization: [State after sweep 1, 2, ...]} plus start states"""
    N, K, L = meta['N'], meta['K'], meta['L']
    raw = {}
    for t in tr:
        if t[0] == '@state':
            raw.setdefault((int(t[1]), int(t[2])), {})[t[3]] = fl(t[5:])
        elif t[0] == 'start':
            raw.setdefault((int(t[1]), 0), {})[t[2]] = fl(t[4:])
    out = {}
    for (r, it), d in sorted(raw.items()):
        if 'u' not in d or 'w' not in d:
            continue
        st = pyspec.State(N, K, L, meta['assort'], meta['directed'], d['u'], d.get('v', []), d['w'])
        out.setdefault(r, {})[it] = st
    liks = {}
    for t in tr:
        if t[0] == '@iter':
            liks[(int(t[1]), int(t[2]))] = (int(t[3]), int(t[4]), bits_to_float(t[5]))
    return out, liks


def invariant_holds(st0, A):
    """rows outside the source/target lists are zero (true of every reachable state; the property quantifies over those)"""
    has_out, has_in = set(), set()
    for a in range(st0.L):
        for (i, j), m in A[a].items():
            if m:
                has_out.add(i)
                has_in.add(j)
    for i in range(st0.N):
        if i not in has_out and any(x != 0.0 for x in st0.u[i]):
            return False
        if st0.directed and i not in has_in and any(x != 0.0 for x in st0.v[i]):
            return False
    return True
