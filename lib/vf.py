"""vf.py -- shared machinery of the /verif checks: paths, deterministic PRNG, builds (Coq, extracted
model, C++ harness; cached by content hash), running model and implementation on case files,
comparison, evidence and verdict handling.  See DESIGN.md section 4."""
import fcntl, hashlib, json, os, re, shutil, subprocess, sys, time

VERIF = os.path.dirname(os.path.dirname(os.path.abspath(__file__)))
REPO = os.environ.get('VERIF_REPO', '/repo')
COQ = os.path.join(VERIF, 'coq')
OCAML = os.path.join(VERIF, 'ocaml')
HARNESS = os.path.join(VERIF, 'harness')
BUILD = os.path.join(VERIF, '_build')
WORK = os.path.join(VERIF, '_work')
EVIDENCE = os.environ.get('VERIF_EVIDENCE_DIR', os.path.join(VERIF, 'evidence'))
KNOWN = os.path.join(VERIF, 'known_findings.txt')
NCPU = os.cpu_count() or 4

MASK = (1 << 64) - 1


class Rng:
    """SplitMix64: every random choice of a check derives from VERIF_SEED through one of these."""

    def __init__(self, seed):
        self.s = (seed * 0x9E3779B97F4A7C15 + 0x1234567) & MASK

    def u64(self):
        self.s = (self.s + 0x9E3779B97F4A7C15) & MASK
        z = self.s
        z = ((z ^ (z >> 30)) * 0xBF58476D1CE4E5B9) & MASK
        z = ((z ^ (z >> 27)) * 0x94D049BB133111EB) & MASK
        return z ^ (z >> 31)

    def below(self, n):
        return self.u64() % n if n > 0 else 0

    def rint(self, a, b):
        return a + self.below(b - a + 1)

    def unit(self):
        return (self.u64() >> 11) / float(1 << 53)

    def chance(self, p):
        return self.unit() < p

    def choice(self, xs):
        return xs[self.below(len(xs))]

    def fork(self, tag):
        h = int.from_bytes(hashlib.sha256(('%d/%s' % (self.s, tag)).encode()).digest()[:8], 'big')
        return Rng(h)

    def shuffle(self, xs):
        xs = list(xs)
        for i in range(len(xs) - 1, 0, -1):
            j = self.below(i + 1)
            xs[i], xs[j] = xs[j], xs[i]
        return xs


def seed():
    try:
        return int(os.environ.get('VERIF_SEED', '1'))
    except ValueError:
        return 1


def sh(cmd, cwd=None, timeout=None, env=None):
    """run a shell command, return (rc, combined output)"""
    try:
        p = subprocess.run(cmd, shell=isinstance(cmd, str), cwd=cwd, stdout=subprocess.PIPE,
                           stderr=subprocess.STDOUT, timeout=timeout, env=env)
        return p.returncode, p.stdout.decode('utf-8', 'replace')
    except subprocess.TimeoutExpired as e:
        return 124, (e.stdout or b'').decode('utf-8', 'replace') + '\n[timeout]'


class Lock:
    def __init__(self, name):
        os.makedirs(BUILD, exist_ok=True)
        self.path = os.path.join(BUILD, '.lock-' + name)

    def __enter__(self):
        self.f = open(self.path, 'w')
        fcntl.flock(self.f, fcntl.LOCK_EX)
        return self

    def __exit__(self, *a):
        fcntl.flock(self.f, fcntl.LOCK_UN)
        self.f.close()


def hash_files(paths, extra=''):
    h = hashlib.sha256(extra.encode())
    for p in sorted(paths):
        h.update(p.encode())
        try:
            with open(p, 'rb') as f:
                h.update(f.read())
        except OSError:
            h.update(b'<missing>')
    return h.hexdigest()


def walk(root, exts):
    out = []
    for d, _, fs in os.walk(root):
        for f in fs:
            if f.endswith(exts):
                out.append(os.path.join(d, f))
    return out


# ----------------------------------------------------------------------------- Coq side
def translate():
    """regenerate coq/Gen*.v from REPO's working tree.  Returns (ok, message)."""
    env = dict(os.environ, VERIF_REPO=REPO)
    rc, out = sh([sys.executable, os.path.join(VERIF, 'tools', 'translate.py')], env=env, timeout=120)
    errs = {}
    for line in out.splitlines():
        if line.startswith('TRANSLATE-ERROR '):
            name, _, msg = line[len('TRANSLATE-ERROR '):].partition(': ')
            errs[name] = msg
    if rc != 0 and not errs:
        errs['*'] = out.strip()[-600:]
    return errs, out.strip()


GEN_FILES = ('GenParams.v', 'GenLayout.v', 'GenCliIdx.v', 'GenPyx.v', 'GenCli.v', 'GenGuards.v')
REF = os.path.join(COQ, 'ref')


def gen_changed():
    """generated files whose current content differs from the committed reference copy (coq/ref/)"""
    out = []
    for g in GEN_FILES:
        try:
            if open(os.path.join(COQ, g)).read() != open(os.path.join(REF, g)).read():
                out.append(g)
        except OSError:
            pass
    return out


def restore_ref(names):
    for g in names:
        try:
            t = open(os.path.join(REF, g)).read()
            if open(os.path.join(COQ, g)).read() != t:
                open(os.path.join(COQ, g), 'w').write(t)
        except OSError:
            pass


def coq_make(targets=None, timeout=1500):
    """full .vo build (never -vos) of the given targets (default: everything); -k so that an
    independent broken proof does not hide the others"""
    with Lock('coq'):
        rc, out = sh([os.path.join(VERIF, 'tools', 'mkcoq.sh')])
        if rc != 0:
            return False, out
        cmd = ['make', '-k', '-j%d' % NCPU] + (targets or [])
        rc, out = sh(cmd, cwd=COQ, timeout=timeout)
        return rc == 0, out


def coq_properties(pid, timeout=600):
    """compile Properties_<pid>.v afresh with coqc; returns dict with theorem names, whether it
    compiled, and the Print Assumptions text per theorem"""
    src = os.path.join(COQ, 'Properties_%s.v' % pid)
    res = {'file': src, 'theorems': [], 'ok': False, 'assumptions': {}, 'log': ''}
    if not os.path.exists(src):
        res['log'] = 'missing ' + src
        return res
    text = open(src).read()
    res['theorems'] = re.findall(r'^\s*(?:Theorem|Corollary)\s+([A-Za-z0-9_\']+)', text, re.M)
    with Lock('coq'):
        rc, out = sh(['coqc', '-Q', '.', 'MT', '-w', '-notation-overridden,-deprecated-hint-without-locality',
                      os.path.basename(src)], cwd=COQ, timeout=timeout)
    res['ok'] = rc == 0
    res['log'] = out[-4000:]
    # split Print Assumptions output: sequences after each "Print Assumptions" in order
    blocks = re.split(r'(?m)^(?=Closed under the global context|Axioms:)', out)
    names = re.findall(r'Print Assumptions\s+([A-Za-z0-9_\']+)\s*\.', text)
    blocks = [b.strip() for b in blocks if b.strip().startswith(('Closed under', 'Axioms:'))]
    for n, b in zip(names, blocks):
        res['assumptions'][n] = ' '.join(b.split())
    return res


FORBIDDEN = re.compile(r'\b(Admitted|admit|Axiom|Axioms|Parameter|Parameters|Conjecture|Admit Obligations|'
                       r'Unset Guard Checking|Unset Positivity Checking|Unset Universe Checking|bypass_check|'
                       r'type-in-type|impredicative-set)\b')


def forbidden_vernac():
    """grep the development for forbidden vernacular; returns list of 'file:line: text'"""
    bad = []
    for p in sorted(walk(COQ, ('.v',))):
        in_comment = 0
        for n, line in enumerate(open(p), 1):
            # strip comments (coarse, nesting-aware)
            out = ''
            i = 0
            while i < len(line):
                if line.startswith('(*', i):
                    in_comment += 1
                    i += 2
                elif line.startswith('*)', i) and in_comment:
                    in_comment -= 1
                    i += 2
                else:
                    if not in_comment:
                        out += line[i]
                    i += 1
            if FORBIDDEN.search(out):
                bad.append('%s:%d: %s' % (os.path.relpath(p, VERIF), n, out.strip()))
    return bad


# ----------------------------------------------------------------------------- model executable
def build_model():
    """coq make (incl. extraction) + ocaml build; returns (ok, msg)"""
    ok, out = coq_make(['Extract.vo'])
    if not ok:
        return False, 'coq make Extract.vo failed:\n' + out[-3000:]
    with Lock('ocaml'):
        exe = os.path.join(OCAML, 'mtmodel')
        srcs = [os.path.join(OCAML, f) for f in ('model.ml', 'model.mli', 'driver.ml')]
        key = hash_files(srcs)
        stamp = os.path.join(OCAML, '.built')
        if os.path.exists(exe) and os.path.exists(stamp) and open(stamp).read() == key:
            return True, 'model up to date'
        rc, out = sh([os.path.join(OCAML, 'build.sh')], timeout=600)
        if rc != 0:
            return False, 'ocaml build failed:\n' + out[-3000:]
        open(stamp, 'w').write(key)
        return True, 'model rebuilt'


# ----------------------------------------------------------------------------- C++ side
SAN_FLAGS = ('-std=c++17 -O1 -g -ffp-contract=off -fsanitize=address,undefined -fno-sanitize-recover=all '
             '-D_GLIBCXX_ASSERTIONS -DMULTITENSOR_VERIF')
PLAIN_FLAGS = '-std=c++17 -O1 -ffp-contract=off -DMULTITENSOR_VERIF'


def repo_sources():
    return (walk(os.path.join(REPO, 'include'), ('.hpp',)) +
            walk(os.path.join(REPO, 'applications'), ('.hpp', '.cpp')))


def prune_builds(keep=4):
    try:
        ds = [os.path.join(BUILD, d) for d in os.listdir(BUILD) if not d.startswith('.')]
        ds = [d for d in ds if os.path.isdir(d)]
        ds.sort(key=lambda d: os.path.getmtime(d), reverse=True)
        for d in ds[keep:]:
            shutil.rmtree(d, ignore_errors=True)
    except OSError:
        pass


def build_cxx(kind='san'):
    """build harness (and CLI) from REPO's working tree; cached by content hash.
    kind: 'san' (ASan+UBSan, assertions) or 'plain'.  Returns (dir or None, msg)."""
    flags = SAN_FLAGS if kind == 'san' else PLAIN_FLAGS
    hs = walk(HARNESS, ('.hpp', '.cpp'))
    key = hash_files(repo_sources() + hs, flags)[:20]
    d = os.path.join(BUILD, '%s-%s' % (kind, key))
    with Lock('cxx-' + kind):
        if os.path.exists(os.path.join(d, 'ok')):
            os.utime(d, None)
            return d, 'cached'
        shutil.rmtree(d, ignore_errors=True)
        os.makedirs(d)
        inc = '-I%s/include -I%s/applications/include -I%s' % (REPO, REPO, HARNESS)
        units = [('h_' + os.path.basename(f)[:-4], f) for f in hs if f.endswith('.cpp') and os.path.basename(f) != 'stubs.cpp']
        units += [('app_utils', os.path.join(REPO, 'applications/src/app_utils.cpp')),
                  ('cli_main', os.path.join(REPO, 'applications/src/multitensor.cpp'))]
        procs = []
        for name, src in units:
            cmd = 'g++ %s %s -c %s -o %s/%s.o' % (flags, inc, src, d, name)
            procs.append((name, subprocess.Popen(cmd, shell=True, stdout=subprocess.PIPE, stderr=subprocess.STDOUT)))
        log = ''
        failed = False
        unavailable = {}
        for name, p in procs:
            out = p.communicate()[0].decode('utf-8', 'replace')
            if p.returncode != 0:
                if name.startswith('h_comp_'):
                    # an OPTIONAL component (it reaches into an internal interface): a stub stands in, only its own cases are affected
                    unit = name[2:]
                    rc_s, out_s = sh('g++ %s %s -DSTUB_%s -c %s -o %s/%s.o' % (flags, inc, unit.upper(), os.path.join(HARNESS, 'stubs.cpp'), d, name))
                    if rc_s == 0:
                        err = [l for l in out.splitlines() if 'error' in l]
                        unavailable[unit] = (err[0] if err else out[-300:]).strip()[:400]
                        continue
                failed = True
                log += '--- %s\n%s\n' % (name, out[-3000:])
        if failed:
            open(os.path.join(d, 'build.log'), 'w').write(log)
            return None, 'C++ compilation failed:\n' + log[-3000:]
        with open(os.path.join(d, 'unavailable.json'), 'w') as f:
            json.dump(unavailable, f)
        hobjs = ' '.join('%s/%s.o' % (d, n) for n, _ in units if n.startswith('h_'))
        rc1, o1 = sh('g++ %s %s %s/app_utils.o -o %s/harness -lboost_filesystem -lboost_system' % (flags, hobjs, d, d))
        rc2, o2 = sh('g++ %s %s/cli_main.o %s/app_utils.o -o %s/Multitensor -lboost_filesystem -lboost_system' % (flags, d, d, d))
        if rc1 or rc2:
            return None, 'link failed:\n' + o1[-2000:] + o2[-2000:]
        for n, _ in units:
            try:
                os.remove('%s/%s.o' % (d, n))
            except OSError:
                pass
        open(os.path.join(d, 'ok'), 'w').write(key)
    prune_builds()
    return d, 'built'


SAN_ENV = {'ASAN_OPTIONS': 'detect_leaks=1:abort_on_error=0:exitcode=77', 'UBSAN_OPTIONS': 'print_stacktrace=1:halt_on_error=1:exitcode=78'}


def workdir():
    d = os.path.join(WORK, str(os.getpid()))
    os.makedirs(d, exist_ok=True)
    return d


def cleanup_work():
    shutil.rmtree(os.path.join(WORK, str(os.getpid())), ignore_errors=True)
    try:
        os.rmdir(WORK)
    except OSError:
        pass


def run_impl(bdir, cases_path, out_path, timeout=3600):
    env = dict(os.environ)
    env.update(SAN_ENV)
    rc, out = sh([os.path.join(bdir, 'harness'), cases_path, out_path], timeout=timeout, env=env)
    return rc, out


def run_model(cases_path, out_path, timeout=3600):
    rc, out = sh([os.path.join(OCAML, 'mtmodel'), cases_path, out_path], timeout=timeout)
    return rc, out


def parse_trace(path):
    """trace file -> dict caseid -> list of (key, tokens)"""
    res = {}
    order = []
    if not os.path.exists(path):
        return res, order
    for line in open(path, errors='replace'):
        t = line.split()
        if len(t) < 2:
            continue
        cid = t[0] + ' ' + t[1]
        if cid not in res:
            res[cid] = []
            order.append(cid)
        res[cid].append(t[2:])
    return res, order


def split_run(cases, runner_impl, runner_model, shards=None):
    pass


def run_both(bdir, cases, tag, shards=None, timeout=3600, model=True, keys=None, retain=True):
    """cases: list of case lines (str).  Runs impl and model on the same cases (sharded over the
    cores), returns dict: {n, compared_tokens, mismatches: [(case_line, first differing key, impl, model)],
    impl_traces, model_traces, crashes}"""
    wd = workdir()
    shards = shards or min(NCPU, max(1, len(cases) // 8))
    files = []
    for s in range(shards):
        part = cases[s::shards]
        if not part:
            continue
        cp = os.path.join(wd, '%s.%d.cases' % (tag, s))
        with open(cp, 'w') as f:
            f.write('\n'.join(part) + '\n')
        files.append((cp, part))
    env = dict(os.environ)
    env.update(SAN_ENV)
    procs = []
    for cp, part in files:
        pi = subprocess.Popen([os.path.join(bdir, 'harness'), cp, cp + '.impl'], stdout=subprocess.PIPE,
                              stderr=subprocess.STDOUT, env=env)
        pm = subprocess.Popen([os.path.join(OCAML, 'mtmodel'), cp, cp + '.model'] if model else ['true'], stdout=subprocess.PIPE,
                              stderr=subprocess.STDOUT)
        procs.append((cp, part, pi, pm))
    result = {'n': len(cases), 'compared_tokens': 0, 'mismatches': [], 'crashes': [], 'impl': {}, 'model': {}, 'unavailable': set()}
    deadline = time.time() + timeout
    for cp, part, pi, pm in procs:
        try:
            oi = pi.communicate(timeout=max(1, deadline - time.time()))[0].decode('utf-8', 'replace')
        except subprocess.TimeoutExpired:
            pi.kill()
            oi = '[timeout]'
        try:
            om = pm.communicate(timeout=max(1, deadline - time.time()))[0].decode('utf-8', 'replace')
        except subprocess.TimeoutExpired:
            pm.kill()
            om = '[timeout]'
        ti, _ = parse_trace(cp + '.impl')
        tm, _ = parse_trace(cp + '.model')
        # traces are kept for the oracles (retain) -- the model's only for small runs (replay) to bound the memory of the thorough tier
        if retain:
            result['impl'].update(ti)
            if len(cases) <= 2000:
                result['model'].update(tm)
        if pi.returncode != 0:
            # find the first case without output: that is the crashing one
            done = set(ti.keys())
            crash_case = None
            for line in part:
                cid = case_id(line)
                if cid not in done:
                    crash_case = line
                    break
            result['crashes'].append({'rc': pi.returncode, 'case': crash_case, 'output': oi[-3000:]})
        if pm.returncode != 0:
            result['crashes'].append({'rc': pm.returncode, 'case': None, 'output': 'MODEL: ' + om[-2000:]})
        for line in part:
            cid = case_id(line)
            a = ti.get(cid)
            b = tm.get(cid)
            if a is not None and a and a[0] and a[0][0] == 'UNAVAILABLE':
                # the harness unit of this component does not compile against the tree under test (a stub answers)
                result['unavailable'].add(a[0][1] if len(a[0]) > 1 else '?')
                continue
            if a is not None and any(x[:2] == ['mode', 'public-only'] for x in a):
                # the UPD unit runs through the public entry point: the composed sweep only
                result.setdefault('degraded', set()).add('comp_upd: public entry point + hooks (composed sweep only)')
                pub = {'dims', 'sweep_u', 'sweep_v', 'sweep_w', 'sweep_lik', 'PUBLIC-ERROR', 'PUBLIC-NO-SWEEP'}
                a = [x for x in a if x and x[0] in pub]
                if b is not None:
                    b = [x for x in b if x and x[0] in pub]
            if a is not None:
                a = [x for x in a if not (x and x[0].startswith('@'))]   # impl-only observations (oracle input)
            if keys is not None:
                # compare only the observables the property's theorems depend on
                eff = set(keys)
                if a is not None and result.get('degraded'):
                    # through the public entry point the function-by-function observables do not exist: their composed counterparts stand in
                    if 'lik' in eff:
                        eff.add('sweep_lik')
                    if 'w1' in eff:
                        eff.add('sweep_w')
                    if 'u1' in eff:
                        eff.add('sweep_u')
                    if 'v1' in eff:
                        eff.add('sweep_v')
                    eff |= {'PUBLIC-ERROR', 'PUBLIC-NO-SWEEP'}
                def keep(x):
                    # 'start:w' selects the lines `start <i> w : ...` only
                    return x and (x[0] in eff or x[0].endswith('-ERROR') or (len(x) > 2 and (x[0] + ':' + x[2]) in eff))
                if a is not None:
                    a = [x for x in a if keep(x)]
                if b is not None:
                    b = [x for x in b if keep(x)]
            if a is None and b is None:
                continue
            if not model:
                result['compared_tokens'] += sum(len(x) for x in a) if a else 0
                continue
            if a is None or b is None:
                result['mismatches'].append({'case': line, 'key': 'missing-trace', 'impl': a is not None, 'model': b is not None})
                continue
            result['compared_tokens'] += sum(len(x) for x in a)
            if a != b and len(a) == len(b) and all(len(x) == len(y) and all(p == q or p == '?' for p, q in zip(x, y)) for x, y in zip(a, b)):
                result.setdefault('wildcards', 0)
                result['wildcards'] += 1          # the implementation answered `?` (unrecognised exception text) where the model names a code
                continue
            if a != b:
                key = None
                for x, y in zip(a, b):
                    if x != y:
                        key = x[0] if x else '?'
                        # first differing token
                        idxs = [i for i, (p, q) in enumerate(zip(x, y)) if p != q]
                        result['mismatches'].append({'case': line, 'key': ' '.join(x[:3]) if x[0] in ('out', 'in', 'start') else x[0],
                                                     'impl': ' '.join(x)[:400], 'model': ' '.join(y)[:400],
                                                     'first_diff_token': idxs[0] if idxs else min(len(x), len(y))})
                        break
                if key is None:
                    result['mismatches'].append({'case': line, 'key': 'length', 'impl': len(a), 'model': len(b)})
    for cp, _, _, _ in procs:
        for suf in ('', '.impl', '.model'):
            try:
                os.remove(cp + suf)
            except OSError:
                pass
    return result


PREFIX = {'GRAPH': 'G', 'UPD': 'U', 'E2E': 'E', 'LAYOUT': 'L', 'WAFF': 'W', 'RNG': 'R', 'PARSE': 'P', 'RAFF': 'A', 'RESIZE': 'Z', 'WMEM': 'M', 'WAFV': 'V', 'SRUN': 'S'}


def case_id(line):
    t = line.split(None, 2)
    return PREFIX.get(t[0], t[0]) + ' ' + t[1]


# ----------------------------------------------------------------------------- float helpers
import struct


def bits_to_float(h):
    if h == 'nan':
        return float('nan')
    return struct.unpack('>d', bytes.fromhex(h))[0]


def fhex(x):
    return float(x).hex()


# ----------------------------------------------------------------------------- known findings
def load_known():
    """known_findings.txt: lines `finding: property=<id> key=<key> <text>` / `fixed: property=<id> <commit> <text>`"""
    out = {'finding': [], 'fixed': []}
    if not os.path.exists(KNOWN):
        return out
    for line in open(KNOWN):
        line = line.strip()
        if not line or line.startswith('#'):
            continue
        m = re.match(r'finding:\s+property=(\S+)\s+key=(\S+)\s+(.*)', line)
        if m:
            out['finding'].append({'property': m.group(1), 'key': m.group(2), 'text': m.group(3)})
            continue
        m = re.match(r'fixed:\s+property=(\S+)\s+(\S+)\s+(.*)', line)
        if m:
            out['fixed'].append({'property': m.group(1), 'commit': m.group(2), 'text': m.group(3)})
    return out


# ----------------------------------------------------------------------------- evidence
def write_evidence(pid, tier, level, coverage, assumptions, wall_s, violations):
    os.makedirs(EVIDENCE, exist_ok=True)
    ev = {'property_id': pid, 'tier': tier, 'seed': seed(), 'level': level, 'coverage': coverage,
          'assumptions': assumptions, 'wall_s': round(wall_s, 2), 'violations': violations}
    p = os.path.join(EVIDENCE, pid + '.json')
    with open(p + '.tmp', 'w') as f:
        json.dump(ev, f, indent=1, default=str)
    os.replace(p + '.tmp', p)
    return p


def write_replay(pid, name, payload):
    d = os.environ.get('VERIF_REPLAY_DIR', os.path.join(VERIF, 'replays'))
    os.makedirs(d, exist_ok=True)
    p = os.path.join(d, '%s-%s.json' % (pid, name))
    with open(p, 'w') as f:
        json.dump(payload, f, indent=1, default=str)
    return p


# ----------------------------------------------------------------------------- the real command line binary
def run_cli(bdir, args, cwd, timeout=600):
    """run the Multitensor binary built from REPO's working tree (sanitized build); returns (rc, output)"""
    env = dict(os.environ)
    env.update(SAN_ENV)
    return sh([os.path.join(bdir, 'Multitensor')] + list(args), cwd=cwd, timeout=timeout, env=env)


def snapshot_dir(d):
    """{relative path: bytes} of a directory tree (missing directory -> None)"""
    if not os.path.isdir(d):
        return None
    out = {}
    for root, _, fs in os.walk(d):
        for f in fs:
            p = os.path.join(root, f)
            out[os.path.relpath(p, d)] = open(p, 'rb').read()
    return out
