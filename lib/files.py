"""files.py -- generators for adjacency / initial-affinity FILES (well-formed renderings in every layout the documented
grammar allows, shape-mismatching and malformed variants) and the expected token grids of the four result files."""
import os
import gen
from vf import bits_to_float


def hexbytes(b):
    return b.hex()


# ----------------------------------------------------------------------------- adjacency files
def render_adjacency(rng, recs, style=None):
    """recs: [(s, t, [w...])] with decimal-integer tokens.  Returns bytes.  Layout choices: separators of blanks and tabs,
    indentation, trailing blanks, interleaved empty / blank-only / CR-only lines, LF or CRLF, final newline or not."""
    style = style or rng.choice(['plain', 'tabs', 'wild', 'crlf', 'wild-crlf'])
    crlf = 'crlf' in style
    wild = 'wild' in style
    out = []

    def sep():
        if style == 'plain' or style == 'crlf':
            return ' '
        if style == 'tabs':
            return '\t'
        return ''.join(rng.choice([' ', '\t']) for _ in range(rng.rint(1, 4)))

    for s, t, ws in recs:
        if wild and rng.chance(0.25):
            out.append(rng.choice(['', ' ', '   ', '\t', ' \t ']))       # empty or blank-only line
        line = ''
        if wild and rng.chance(0.3):
            line += ''.join(rng.choice([' ', '\t']) for _ in range(rng.rint(1, 3)))
        fields = [s, t] + list(ws)
        if wild and rng.chance(0.1):
            fields = ['0' * rng.rint(1, 2) + f for f in fields]             # leading zeros
        line += fields[0]
        for f in fields[1:]:
            line += sep() + f
        if wild and rng.chance(0.4):
            line += ''.join(rng.choice([' ', ' ', '\t']) for _ in range(rng.rint(1, 3)))
        out.append(line)
    if wild and rng.chance(0.3):
        out.append(rng.choice(['', '  ', '\t']))
    eol = '\r\n' if crlf else '\n'
    text = eol.join(out)
    if rng.chance(0.8):
        text += eol
    return text.encode('latin-1'), style


def malformed_adjacency(rng, recs):
    """byte/token level mutations of a well-formed file: ragged rows, non-numeric tokens, huge numbers, signs, comments,
    binary bytes, missing fields -- for the memory-safety stream (never compared with the model)"""
    data, _ = render_adjacency(rng, recs, 'plain')
    lines = data.decode('latin-1').split('\n')
    kind = rng.below(12)
    if not lines:
        lines = ['']
    i = rng.below(len(lines))
    toks = lines[i].split()
    if kind == 0 and toks:
        toks = toks[:rng.below(len(toks)) + 1]                    # ragged (missing columns)
    elif kind == 1:
        toks = toks + ['7'] * rng.rint(1, 5)                     # extra columns
    elif kind == 2 and toks:
        toks[rng.below(len(toks))] = rng.choice(['x', '1.5', '-3', '+4', '1e3', 'nan', '0x10', '#', '1,2'])
    elif kind == 3 and toks:
        # huge numbers as LABELS (a huge weight is a valid request for that many parallel edges: a resource question, not a memory-safety one)
        toks[rng.below(min(2, len(toks)))] = rng.choice(['18446744073709551615', '18446744073709551616', '99999999999999999999999999', '4294967296'])
    elif kind == 4:
        toks = ['#', 'comment'] + toks
    elif kind == 5:
        toks = toks[:1]
    elif kind == 6:
        lines = []
    elif kind == 7:
        lines[i] = lines[i] + '\x00\xff\x01'
    elif kind == 8:
        lines = [l for l in lines] + ['1']
    elif kind == 9:
        lines = ['\t', ' ', '\r'] + lines
    elif kind == 10 and toks:
        toks[-1] = '3000'                                         # a large multiplicity (bounded)
    else:
        lines.insert(i, ' '.join(str(rng.below(5)) for _ in range(rng.rint(1, 9))))
    if kind in (0, 1, 2, 3, 4, 5, 10):
        lines[i] = ' '.join(toks)
    return '\n'.join(lines).encode('latin-1'), kind


# ----------------------------------------------------------------------------- initial-affinity files
def fmt_val(x):
    return repr(float(x)) if x != int(x) or abs(x) > 1e15 else str(int(x)) if False else ('%.10g' % x)


def render_affinity(rng, K, L, diag, style=None):
    """diag[layer][k]; one line `layer d_1 ... d_K` per layer, optional comment header, blank lines, any layer order"""
    style = style or rng.choice(['plain', 'header', 'shuffled', 'wild'])
    lines = []
    if style in ('header', 'wild'):
        lines.append('# Max likelihood= -123 N_real=1')
    order = list(range(L))
    if style in ('shuffled', 'wild'):
        order = rng.shuffle(order)
    for a in order:
        sep = ' ' if style != 'wild' else rng.choice([' ', '\t', '  '])
        l = str(a) + sep + sep.join(fmt_val(x) for x in diag[a])
        if style in ('plain', 'header') or rng.chance(0.5):
            l += ' '                                               # the writer's trailing blank
        lines.append(l)
        if style == 'wild' and rng.chance(0.3):
            lines.append(rng.choice(['', '  ']))
    return ('\n'.join(lines) + '\n').encode('latin-1'), style


def mismatching_affinity(rng, K, L):
    """files whose columns / layers / layer ids disagree with K, L: must be rejected"""
    kind = rng.choice([0, 1, 2, 4, 5, 7, 8] if L == 1 else [0, 1, 2, 3, 4, 5, 6, 7, 8, 9, 9, 10, 10])
    diag = [[round(rng.unit(), 3) for _ in range(K)] for _ in range(L)]
    if kind == 0:
        diag = [row + [0.5] for row in diag]                      # one column too many everywhere
    elif kind == 1:
        diag = [row[:-1] for row in diag]                         # one column too few (K-1 may be 0..)
    elif kind == 2:
        diag = diag + [diag[0]]                                   # an extra layer (ids 0..L)
    elif kind == 3 and L > 1:
        diag = diag[:-1]                                          # a missing layer
    elif kind == 4:
        diag[rng.below(L)] = diag[0] + [0.25]                     # ragged
    lines = []
    for a, row in enumerate(diag):
        lid = a
        if kind == 5 and a == len(diag) - 1:
            lid = L if rng.chance(0.5) else L + 3                 # layer id out of range (== L: the 1-based slip)
        if kind == 6 and a == len(diag) - 1 and L > 1:
            lid = 0                                               # duplicated layer id
        lines.append(' '.join([str(lid)] + [fmt_val(x) for x in row]))
    if kind == 7:
        lines = ['# only a comment', '']
    if kind == 3 and L == 1:
        lines = []
    if kind == 10:
        # the leading data line(s) -- not all of them -- hold a layer id and no value at all; the other lines are well formed, the number of lines is L
        for a in range(rng.rint(1, L - 1)):
            lines[a] = lines[a].split()[0]
    if kind == 9:
        # a layer other than the last one is missing: fewer layer lines than L, distinct ids, the largest id still L - 1 (a gap in the ids)
        del lines[rng.below(L - 1)]
        if rng.chance(0.5):
            lines = rng.shuffle(lines)
    if kind == 8:
        # a stray line holding nothing but a (one-character) layer id: a row without a single value
        lines.insert(rng.below(len(lines) + 1), str(rng.below(min(L, 10))))
    return ('\n'.join(lines) + '\n').encode('latin-1'), kind


def malformed_affinity(rng, K, L):
    data, _ = render_affinity(rng, K, L, [[round(rng.unit(), 3) for _ in range(K)] for _ in range(L)], 'plain')
    lines = data.decode('latin-1').split('\n')
    i = rng.below(max(1, len(lines) - 1))
    toks = lines[i].split()
    kind = rng.below(9)
    if kind == 0 and toks:
        # out-of-range layer ids, among them the ones whose product with the block size (K or K*K) WRAPS modulo 2^64 to a small number
        wrap = []
        for block in (K, K * K):
            g = block & -block                                       # largest power of two dividing the block size
            wrap += [str((1 << 64) // g), str((1 << 64) // g + 1), str(pow(block // g, -1, (1 << 64) // g) if block // g > 1 else (1 << 63))]
        toks[0] = rng.choice(['-1', '99999999999999999999', 'x', '1.5', '4294967295', str(L), str(L * 1000), str(1 << 63), str(1 << 62), str((1 << 62) + 1),
                              '12297829382473034411', '18446744073709551615'] + wrap)
    elif kind == 1 and len(toks) > 1:
        toks[rng.rint(1, len(toks) - 1)] = rng.choice(['abc', '1e999', '-1e999', 'nan', 'inf', '0x1p3', '--', '1..2'])
    elif kind == 2:
        toks = toks + ['1'] * rng.rint(1, 40)
    elif kind == 3:
        toks = toks[:1]
    elif kind == 4:
        lines = lines * 3
    elif kind == 5:
        lines[i] = lines[i] + '\x00\xfe'
    elif kind == 6:
        lines = ['\t\t', ' '] + lines
    elif kind == 7:
        lines = []
    else:
        toks = ['#'] + toks
    if kind in (0, 1, 2, 3, 8):
        lines[i] = ' '.join(toks)
    return '\n'.join(lines).encode('latin-1'), kind


# ----------------------------------------------------------------------------- expected result files
def g6(x):
    """operator<<(double) with precision 6 (default float format) == printf("%.6g")"""
    if x != x:
        return 'nan'                                    # sign of NaN not compared
    if x in (float('inf'), float('-inf')):
        return 'inf' if x > 0 else '-inf'
    s = '%.6g' % x
    return s


def expected_files(meta, trace_dict, directed, K, L, assort):
    """token grids of run_info.dat / w_out.dat / u_out.dat / v_out.dat from a library result (harness E2E trace)"""
    labels = trace_dict['labels'][0]
    u = [bits_to_float(h) for h in trace_dict['u'][0][3:]]
    v = [bits_to_float(h) for h in trace_dict['v'][0][3:]]
    aff = [bits_to_float(h) for h in trace_dict['aff'][0][2:]]
    rep = trace_dict['rep'][0]
    r = int(rep[0])
    reps = [(int(rep[2 + 3 * i]), rep[3 + 3 * i], bits_to_float(rep[4 + 3 * i])) for i in range(r)]
    best = reps[0][2]
    for x in reps[1:]:
        if best < x[2]:
            best = x[2]
    N = len(labels)
    head = ['#', 'Max', 'likelihood=', (str(int(best)) if best == best and abs(best) != float('inf') else '?'), 'N_real=%d' % r]      # (a comment line: never compared)
    files = {}
    files['run_info.dat'] = [['#', 'Number', 'of', 'realization', '=', str(r)], ['#', 'Maximum', 'Likelihood', '=', g6(best)], None,
                             ['#', 'Seed', '=', str(meta['seed'])], ['#', 'real', 'num_iters', 'term_reason', 'L2']] + \
                            [[str(i), str(it), rs, g6(l)] for i, (it, rs, l) in enumerate(reps)]
    rows = [head]
    for a in range(L):
        rows.append(['a=', str(a)])
        for k in range(K):
            rows.append([g6(aff[k + a * K])] if assort else [g6(aff[k + q * K + a * K * K]) for q in range(K)])
    files['w_out.dat'] = rows
    files['u_out.dat'] = [head] + [[labels[i]] + [g6(u[i * K + k]) for k in range(K)] for i in range(N)]
    if directed:
        files['v_out.dat'] = [head] + [[labels[i]] + [g6(v[i * K + k]) for k in range(K)] for i in range(N)]
    return files


def read_result_files(outdir):
    """{file name: [token lists of non-empty lines]}"""
    out = {}
    if not os.path.isdir(outdir):
        return out
    for f in sorted(os.listdir(outdir)):
        try:
            text = open(os.path.join(outdir, f), errors='replace').read()
        except OSError:
            continue
        out[f] = [l.split() for l in text.split('\n') if l.strip()]
    return out


def is_number(t):
    try:
        float(t.replace('-nan', 'nan'))
        return True
    except ValueError:
        return False


def data_rows(name, rows):
    """what the property speaks about: the labelled membership rows, the rows of the affinity blocks, the per-realization rows of the info file.
    Comment lines (`# ...`) and the block headers of the affinity file (`a= 3`) are presentation: a maintainer may reword them."""
    out = []
    for r in rows:
        if r is None or not r or r[0].startswith('#'):
            continue
        if name == 'w_out.dat' and not is_number(r[0]):
            continue                                         # a block header such as `a= 3`
        out.append([t.replace('-nan', 'nan') for t in r])
    return out


def seed_listed(rows, seed):
    """the info file lists the seed: the supplied value occurs as a token of one of its comment lines"""
    return any(r and r[0].startswith('#') and str(seed) in r for r in rows if r is not None)


def compare_files(expected, got):
    """first difference or None (data rows only, see data_rows; the info file must also list the seed)"""
    if sorted(expected) != sorted(got):
        return 'files written: %s, expected: %s' % (sorted(got), sorted(expected))
    for name, rows in expected.items():
        e_rows, g_rows = data_rows(name, rows), data_rows(name, got[name])
        if len(g_rows) != len(e_rows):
            return '%s: %d data rows, expected %d' % (name, len(g_rows), len(e_rows))
        for n, (e, x) in enumerate(zip(e_rows, g_rows)):
            if e != x:
                return '%s data row %d: %s, expected %s' % (name, n + 1, ' '.join(x), ' '.join(e))
        if name == 'run_info.dat':
            seeds = [r[-1] for r in rows if r and r[:2] == ['#', 'Seed']]
            if seeds and not seed_listed(got[name], seeds[0]):
                return 'run_info.dat does not list the seed %s' % seeds[0]
    return None
