"""pyspec.py -- the declarative side of the analytic properties in plain python floats (dense sums over all
vertex pairs, math.fsum), used ONLY as test oracles on implementation traces: Poisson log-likelihood, the
published update equations, per-layer mass, cleanliness of a step.  Mirrors coq/Spec.v."""
import math, collections

EPS = 1e-6


def multiplicities(recs, directed, L):
    """A[a][(i,j)] oriented multiplicities as the solver sees them (both orientations when undirected,
    a self-loop twice), vertex order = first appearance"""
    order = []
    seen = {}
    for s, t, _ in recs:
        for x in (s, t):
            if x not in seen:
                seen[x] = len(order)
                order.append(x)
    A = [collections.Counter() for _ in range(L)]
    for s, t, ws in recs:
        for a in range(L):
            x = float(ws[a])
            m = int(math.ceil(x)) if x > EPS else 0
            if m:
                A[a][(seen[s], seen[t])] += m
                if not directed:
                    A[a][(seen[t], seen[s])] += m
    return len(order), A


class State:
    """u, v: N x K lists of rows; w: general K x K x L as w[a][k][q], assortative w[a][k]"""

    def __init__(self, N, K, L, assort, directed, u, v, wflat):
        self.N, self.K, self.L, self.assort, self.directed = N, K, L, assort, directed
        self.u = [list(u[i * K:(i + 1) * K]) for i in range(N)]
        self.v = [list(v[i * K:(i + 1) * K]) for i in range(N)] if directed else self.u
        if assort:
            self.w = [[wflat[k + a * K] for k in range(K)] for a in range(L)]
        else:
            self.w = [[[wflat[k + q * K + a * K * K] for q in range(K)] for k in range(K)] for a in range(L)]

    def wkq(self, k, q, a):
        if self.assort:
            return self.w[a][k] if k == q else 0.0
        return self.w[a][k][q]


def rate(u, v, st, i, j, a):
    K = st.K
    if st.assort:
        return math.fsum(u[i][k] * v[j][k] * st.w[a][k] for k in range(K))
    return math.fsum(u[i][k] * v[j][q] * st.w[a][k][q] for k in range(K) for q in range(K))


def loglik(st, A, u=None, v=None):
    """sum_a sum_ij A ln M - M ; returns (LL, min observed rate)"""
    u = st.u if u is None else u
    v = st.v if v is None else v
    terms = []
    minrate = float('inf')
    LOGLIK_MARGIN[0] = float('inf')
    for a in range(st.L):
        for i in range(st.N):
            for j in range(st.N):
                M = rate(u, v, st, i, j, a)
                terms.append(-M)
                m = A[a].get((i, j), 0)
                if m:
                    minrate = min(minrate, M)
                    if M == M:
                        LOGLIK_MARGIN[0] = min(LOGLIK_MARGIN[0], abs(M - EPS) / EPS)
                    if M > EPS:
                        terms.append(m * math.log(M))
    return math.fsum(terms), minrate


# smallest relative distance of an OBSERVED pair's rate to the 1e-6 threshold in the last loglik() call: below 1e-9 the presence of
# that pair's log term is decided by the rounding of the rate (summation order), and the oracle sets the state aside
LOGLIK_MARGIN = [float('inf')]


def min_observed_rate(st, A, u, v):
    mr = float('inf')
    for a in range(st.L):
        for (i, j), m in A[a].items():
            if m:
                mr = min(mr, rate(u, v, st, i, j, a))
    return mr


class Margin:
    """smallest relative distance to the 1e-6 threshold among the comparisons made by the reference
    equations since reset(): a case whose margin is below 1e-9 is decided by rounding (summation order) and is
    set aside by the oracles instead of being judged"""
    value = float('inf')

    @classmethod
    def reset(cls):
        cls.value = float('inf')

    @classmethod
    def note(cls, x):
        if x == x and x != 0.0:
            cls.value = min(cls.value, abs(abs(x) - EPS) / EPS)


def trunc(x):
    Margin.note(x)
    return 0.0 if abs(x) < EPS else x


def guarded(old, den, num):
    Margin.note(den)
    if den > EPS:
        Margin.note(old)
        if old > EPS:
            return trunc(old / den * num)
        return old
    return old


def over(num, r):
    Margin.note(r)
    return num / r if r > EPS else 0.0


def em_u(st, A, u, v):
    """dense published out-membership update (assortative: only k = q)"""
    N, K, L = st.N, st.K, st.L
    new = [row[:] for row in u]
    for k in range(K):
        if st.assort:
            den = math.fsum(st.w[a][k] for a in range(L)) * math.fsum(v[j][k] for j in range(N))
        else:
            den = math.fsum(math.fsum(st.w[a][k][q] for a in range(L)) * math.fsum(v[j][q] for j in range(N)) for q in range(K))
        for i in range(N):
            num = []
            for a in range(L):
                for j in range(N):
                    m = A[a].get((i, j), 0)
                    if m:
                        s = v[j][k] * st.w[a][k] if st.assort else math.fsum(v[j][q] * st.w[a][k][q] for q in range(K))
                        num.append(m * over(s, rate(u, v, st, i, j, a)))
            new[i][k] = guarded(u[i][k], den, math.fsum(num))
    return new


def em_v(st, A, u, v):
    N, K, L = st.N, st.K, st.L
    new = [row[:] for row in v]
    for k in range(K):
        if st.assort:
            den = math.fsum(st.w[a][k] for a in range(L)) * math.fsum(u[i][k] for i in range(N))
        else:
            den = math.fsum(math.fsum(st.w[a][q][k] for a in range(L)) * math.fsum(u[i][q] for i in range(N)) for q in range(K))
        for j in range(N):
            num = []
            for a in range(L):
                for i in range(N):
                    m = A[a].get((i, j), 0)
                    if m:
                        s = u[i][k] * st.w[a][k] if st.assort else math.fsum(u[i][q] * st.w[a][q][k] for q in range(K))
                        num.append(m * over(s, rate(u, v, st, i, j, a)))
            new[j][k] = guarded(v[j][k], den, math.fsum(num))
    return new


def em_w(st, A, u, v):
    """returns new w in the same shape as st.w, plus the list of (k,q,a) whose update was skipped by the
    denominator guard although the old value was > eps, and the snapped mass per layer"""
    N, K, L = st.N, st.K, st.L
    Du = [math.fsum(u[i][k] for i in range(N)) for k in range(K)]
    Dv = [math.fsum(v[j][q] for j in range(N)) for q in range(K)]
    skipped = []
    snapped_mass = [0.0] * L
    if st.assort:
        new = [row[:] for row in st.w]
    else:
        new = [[r[:] for r in layer] for layer in st.w]
    for a in range(L):
        for k in range(K):
            for q in ([k] if st.assort else range(K)):
                old = st.w[a][k] if st.assort else st.w[a][k][q]
                den = Du[k] * Dv[q]
                num = math.fsum(m * over(u[i][k] * v[j][q], rate(u, v, st, i, j, a)) for (i, j), m in A[a].items() if m)
                val = guarded(old, den, num)
                if old > EPS and not (den > EPS):
                    skipped.append((k, q, a))
                if old > EPS and den > EPS:
                    pre = old / den * num
                    if abs(pre) < EPS:
                        snapped_mass[a] += pre * den
                if st.assort:
                    new[a][k] = val
                else:
                    new[a][k][q] = val
    return new, skipped, snapped_mass


def em_sweep(st, A):
    """one iteration in the documented order; returns dict with u1, v1, w1 and diagnostics"""
    u1 = em_u(st, A, st.u, st.v if st.directed else st.u)
    if st.directed:
        v1 = em_v(st, A, u1, st.v)
    else:
        v1 = u1
    w1, skipped, snapped = em_w(st, A, u1, v1)
    return {'u1': u1, 'v1': v1, 'w1': w1, 'skipped': skipped, 'snapped_mass': snapped}


def flat_w(st, w):
    K, L = st.K, st.L
    if st.assort:
        return [w[a][k] for a in range(L) for k in range(K)]
    return [w[a][k][q] for a in range(L) for q in range(K) for k in range(K)]


def flat_m(m):
    return [x for row in m for x in row]


def close(a, b, rel=1e-10, absol=0.0):
    if a == b:
        return True
    if a != a or b != b:
        return False
    return abs(a - b) <= rel * max(abs(a), abs(b)) + absol


def expected_edges(st, u, v, w, a):
    st2 = State.__new__(State)
    st2.__dict__.update(st.__dict__)
    st2.w = w
    return math.fsum(rate(u, v, st2, i, j, a) for i in range(st.N) for j in range(st.N))
