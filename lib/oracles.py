"""oracles.py -- declarative reference computations (python, independent of the Coq model) used to
search the IMPLEMENTATION's traces for a concrete input on which a property fails."""
import math
from vf import bits_to_float

LOWEST = -1.7976931348623157e308
EPS = 1e-6
EPS_LIK = 1e-4


def rel_change(a, b):
    num = abs(a - b)
    den = abs(a)
    if den == 0.0:
        return float('nan') if (num == 0.0 or num != num) else float('inf')
    return num / den


def spec_stop(maxit, nconv, Ls):
    """C05 as documented: evaluations after sweeps 1, 11, 21, ...; Ls[j] = likelihood of evaluation j.
    returns (n, reason, reported L2)"""
    streak = 0
    prev = LOWEST
    rep = LOWEST
    for n in range(1, maxit + 1):
        if (n - 1) % 10 == 0:
            L = Ls[(n - 1) // 10]
            streak = streak + 1 if rel_change(prev, L) < EPS_LIK else 0
            prev = L
            rep = L
            if streak == nconv:
                return n, 'CONVERGED', rep
        if n == maxit:
            return n, 'MAX_ITER', rep
    return maxit, 'MAX_ITER', rep


def trace_dict(tr):
    """list of token lists -> helpers"""
    d = {}
    for t in tr:
        d.setdefault(t[0], []).append(t[1:])
    return d


def parse_rep(tr):
    """rep line -> list of (iters, reason, L2 float, L2 bits)"""
    for t in tr:
        if t[0] == 'rep':
            n = int(t[1])
            out = []
            for k in range(n):
                it, rs, h = t[3 + 3 * k], t[4 + 3 * k], t[5 + 3 * k]
                out.append((int(it), rs, bits_to_float(h), h))
            return out
    return None


def floats(tokens):
    return [bits_to_float(h) for h in tokens]


def first_argmax(ls):
    """index of the first maximum with std::max_element semantics (strict <)"""
    if not ls:
        return None
    best = 0
    for i in range(1, len(ls)):
        if ls[best] < ls[i]:
            best = i
    return best
